#!/bin/bash
# usage: mutrun.sh <Cxx[,Cyy]> <tier> <sed-expr> <file-relative-to-repo>   (sensitivity audit helper; always restores /repo)
# or:    mutrun.sh <Cxx[,Cyy]> <tier> --patch <patchfile>
props=$1; tier=$2; shift 2
evbak=$(mktemp -d /tmp/mutrun-ev.XXXXXX); cp /verif/evidence/*.json $evbak/ 2>/dev/null
restore() { git -C /repo checkout -- . ; cp $evbak/*.json /verif/evidence/ 2>/dev/null; rm -rf $evbak; }
trap restore EXIT INT TERM
cd /repo || exit 9
if [ "$1" == "--patch" ]; then git apply "$2" || { echo "PATCH-FAILED"; exit 9; }
else sed -i -E "$1" "$2"; fi
if git diff --quiet; then echo "MUTATION-NOOP"; exit 9; fi
git diff --stat | tail -1
cd /verif
for p in ${props//,/ }; do
  out=$(timeout ${MUT_TIMEOUT:-600} ./check run $p --tier $tier 2>&1); rc=$?
  echo "$out" | grep -E "^(VIOLATION|OK|BROKEN|KNOWN)|violation detail" | cut -c1-400
  echo "== $p rc=$rc"
  pkill -f "build/native/bin/$p " 2>/dev/null
done
