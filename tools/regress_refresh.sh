#!/bin/bash
# Re-derive the regression replays: revert each "fix:" commit in /repo's working tree (never committed), run the checks
# that guard it, keep the (shrunk, 3x confirmed) failing case as replays/regress/<Cxx>/<name>.json, restore /repo.
# usage: regress_refresh.sh  (table below: commit  props  name)
set -u
run() {
  commit=$1; props=$2; name=$3
  rp=/tmp/revert-$commit.diff
  git -C /repo diff $commit $commit^ > $rp
  out=$(MUT_TIMEOUT=1500 /verif/tools/mutrun.sh $props quick --patch $rp 2>&1)
  for p in ${props//,/ }; do
    f=$(echo "$out" | grep "^VIOLATION property=$p " | head -1 | sed 's/.*replay=//')
    if [ -n "$f" ] && [ -f "$f" ]; then
      case "$f" in /verif/replays/regress/*) echo "REFRESH $commit $p: existing replay still fails on the reverted tree (kept): $f";;
      *) mkdir -p /verif/replays/regress/$p; cp "$f" /verif/replays/regress/$p/$name.json; echo "REFRESH $commit $p: new replay from $f";; esac
    else echo "REFRESH $commit $p: NOT DETECTED on the reverted tree"; fi
  done
  rm -f $rp
}
if [ $# -ge 3 ]; then run "$@"; exit; fi
run d60b694 C03,C05 gf_5vect_dot_prod_avx512_gfni-dead-load
run 6e059fd C13,C05 gf_vect_mul_len0
run 21779b3 C09 gen-matrix-small-k
run 7d6bf49 C16 crc64-by8-without-pclmul
run 6b3827f C16 avx512-g2-without-g1
run 0e58046 C01,C05,C07 fullflush-pending-stale-history
run 136bd17 C02,C07 gzip-fhcrc-split-across-calls
run 56cbcaf C19 zlib-dictid-byte-order
run 388d0f1 C18 subset-without-eob
run a2d9adc C14 flush-pending-new-input-only-buffered
run a432e9e C20,C05 saturated-last-chunk
