#!/usr/bin/env python3
"""Import a confirmed seeded change produced by a sub-agent into /verif/seeded/<id>/.
usage: seedimport.py <srcdir> <seed-id> <property> <base-commit> [round]"""
import json, os, re, shutil, sys
src, sid, prop, base = sys.argv[1:5]
rnd = sys.argv[5] if len(sys.argv) > 5 else "1"
dst = os.path.join("/verif/seeded", sid)
os.makedirs(dst, exist_ok=True)
keep = []
for fn in sorted(os.listdir(src)):
    p = os.path.join(src, fn)
    if not os.path.isfile(p) or os.path.getsize(p) > 150000:
        continue
    if fn.endswith((".c", ".h", ".sh", ".diff", ".txt", ".cpp", ".py", ".S", ".asm")) and not fn.startswith("demo_b"):
        shutil.copy(p, os.path.join(dst, fn))
        keep.append(fn)
notes = open(os.path.join(src, "notes.txt")).read().strip() if os.path.exists(os.path.join(src, "notes.txt")) else ""
confirm = open(os.path.join(src, "confirm.log")).read().strip().splitlines() if os.path.exists(os.path.join(src, "confirm.log")) else []
files = re.findall(r"^\+\+\+ b/(\S+)", open(os.path.join(src, "patch.diff")).read(), re.M)
meta = {
    "id": sid, "breaks_property": prop, "round": int(rnd), "base_commit": base,
    "origin": "fresh sub-agent given only the text of the property and a scratch worktree of the library (nothing from /verif)",
    "files_changed": files,
    "needs_to_manifest": notes,
    "confirmed_by_me": {
        "how": "tools/seedconfirm.sh in a scratch worktree: git apply, touch *.asm (nasm includes are not tracked by the makefile), make, make check, demo.sh with the patch, git checkout, rebuild, demo.sh without the patch",
        "result": confirm[-2:] if confirm else [],
    },
    "files": keep,
}
mp = os.path.join(dst, "meta.json")
if os.path.exists(mp):
    old = json.load(open(mp))
    for k in ("checks_run", "caught_by", "history"):
        if k in old:
            meta[k] = old[k]
json.dump(meta, open(mp, "w"), indent=1)
print("imported", sid, len(keep), "files")
