#!/bin/bash
# usage: seedconfirm.sh <worktree> <seeddir>   -- confirm a candidate seeded change in a scratch worktree:
#   patch applies, library builds, `make check` 16/16, demo fails with the patch and passes without it.
wt=$1; sd=$2
cd $wt || exit 9
git checkout -- . ; 
git apply $sd/patch.diff || { echo "CONFIRM patch-does-not-apply"; exit 1; }
find . -name "*.asm" -exec touch {} +
make -j6 >/dev/null 2>&1 || { echo "CONFIRM build-fails"; git checkout -- .; exit 1; }
res=$(make check -j6 2>&1 | grep -E "^# (PASS|FAIL|ERROR)" | tr -d ' \n')
git checkout -- programs/igzip.1 2>/dev/null
(cd $sd && timeout 600 bash ./demo.sh > demo.with.out 2>&1); rcw=$?
git checkout -- .; find . -name "*.asm" -exec touch {} +
make -j6 >/dev/null 2>&1
(cd $sd && timeout 600 bash ./demo.sh > demo.without.out 2>&1); rco=$?
echo "CONFIRM make_check=$res demo_with_patch_rc=$rcw demo_without_patch_rc=$rco"
if [[ "$res" == "#PASS:16#FAIL:0#ERROR:0" && $rcw -ne 0 && $rco -eq 0 ]]; then echo "CONFIRM ok"; exit 0; else echo "CONFIRM rejected"; exit 1; fi
