#!/usr/bin/env python3
"""Run the registered checks against every seeded change (apply to /repo, run, undo) and record the outcome in meta.json.
usage: seedmatrix.py [--tier quick] [--only ID[,ID]] [--props own|Cxx,Cyy]"""
import json, os, subprocess, sys, time
tier = "quick"; only = None; props_arg = "own"
a = sys.argv[1:]
while a:
    x = a.pop(0)
    if x == "--tier": tier = a.pop(0)
    elif x == "--only": only = a.pop(0).split(",")
    elif x == "--props": props_arg = a.pop(0)
head = subprocess.run(["git", "-C", "/repo", "rev-parse", "--short", "HEAD"], stdout=subprocess.PIPE, text=True).stdout.strip()
rows = []
for sid in sorted(os.listdir("/verif/seeded")):
    d = os.path.join("/verif/seeded", sid)
    mp = os.path.join(d, "meta.json")
    if not os.path.exists(mp) or (only and sid not in only):
        continue
    meta = json.load(open(mp))
    if meta.get("status") == "superseded":
        continue
    props = meta["breaks_property"] if props_arg == "own" else props_arg
    t0 = time.time()
    p = subprocess.run(["/verif/tools/mutrun.sh", props, tier, "--patch", os.path.join(d, "patch.diff")], stdout=subprocess.PIPE, stderr=subprocess.STDOUT, text=True,
                       env=dict(os.environ, MUT_TIMEOUT="1500"))
    out = p.stdout
    caught = [l.split()[1].split("=")[1] for l in out.splitlines() if l.startswith("VIOLATION")]
    details = [l[l.find("violation detail:") + 18:][:300] for l in out.splitlines() if "violation detail:" in l][:3]
    rcs = [l for l in out.splitlines() if l.startswith("== ")]
    rec = {"repo_head": head, "tier": tier, "verif_seed": int(os.environ.get("VERIF_SEED", "1") or "1"), "cmd": "git -C /repo apply seeded/%s/patch.diff; ./check run %s --tier %s; git -C /repo checkout -- ." % (sid, props.replace(",", " / "), tier),
           "result": "caught" if caught else "missed", "violations_for": sorted(set(caught)), "first_details": details, "wall_s": round(time.time() - t0, 1)}
    meta.setdefault("checks_run", [])
    meta["checks_run"] = [r for r in meta["checks_run"] if not (r.get("tier") == tier and r.get("repo_head") == head and r.get("cmd") == rec["cmd"] and r.get("verif_seed", 1) == rec["verif_seed"])] + [rec]
    meta["caught_by"] = sorted(set(meta.get("caught_by", [])) | set(caught))
    json.dump(meta, open(mp, "w"), indent=1)
    print("%-8s %-7s %s %s" % (sid, rec["result"], ",".join(rec["violations_for"]), " ".join(rcs)), flush=True)
    st = subprocess.run(["git", "-C", "/repo", "status", "--short"], stdout=subprocess.PIPE, text=True).stdout
    if any(not l.startswith("??") for l in st.splitlines()):
        print("REPO DIRTY, stopping"); sys.exit(9)
