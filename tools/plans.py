"""Per-property run plans: which harness binaries, build configurations and
case budgets make up the quick and the thorough tier.  Budgets are case
counts (never per-case timers)."""


def S(bin, cases, cfg="native", **kw):
    d = {"cfg": cfg, "bin": bin, "cases": cases}
    d.update(kw)
    return d


def F(bin, runs, **kw):
    """coverage-guided stage: the same property bodies under libFuzzer + ASan (cfg asan); budget = total executions"""
    d = {"cfg": "asan", "bin": bin, "cases": runs, "engine": "fuzz"}
    d.update(kw)
    return d


PLANS = {}


def plan(pid, level, rule, stages, **kw):
    d = {"level": level, "rule": rule, "stages": stages}
    d.update(kw)
    PLANS[pid] = d


plan("C12", "exploration",
     "Exhaustive enumeration: all 65536 (a,b) pairs x all 256 third operands, all 256 inverses, all 256 constants x "
     "(32 table bytes, 256 table-driven products, 256 GFNI-matrix products), in the default and the GF_LARGE_TABLES build and with the byte-wise table builder that 32-bit / big-endian targets compile; "
     "plus generated (k, rows, coefficient matrix) cases through ec_init_tables_base and the dispatched ec_init_tables. "
     "Non-trivial: both operands non-zero / constant > 1 / at least two coefficients.",
     lambda tier: [S("C12", 4000), S("C12", 4000, cfg="gflarge"), S("C12", 2000, cfg="ecgeneric")],
     exhaustive=True,
     assumptions=["reference: carry-less multiply reduced by 0x11D written from the definition",
                  "software model of GF2P8AFFINEQB (Intel SDM bit order) for the GFNI table"])


def setup_external(BUILD, REPO, VERIF):
    return True


def run_external(*a, **k):
    return {}


def run_fuzz(*a, **k):
    return {}


def replay_external(r, path):
    return "error", "no external engine"

plan("C20", "exploration",
     "Systematic sweep of len 0..600 (thorough 0..1100) x {5 kernels, dispatcher under a rotating simulated CPU level} x {end-flush, start-flush, "
     "aligned-with-offset} and generated cases (len up to 1 MiB, alignment 0..63, all 12 CPU levels); each case checks the all-zero answer and a single "
     "non-zero byte at every position x 3 values, with non-zero bytes or an inaccessible page directly outside the region. Non-trivial: len >= 1.",
     lambda tier: [S("C20", 900000 if tier == "quick" else 12000000)],
     assumptions=["definition oracle: result == 0 iff all bytes zero", "guard pages convert out-of-region reads into failures"])

plan("C04", "exploration",
     "Systematic: every len 0..420 (thorough 0..1100) x every one of 48 direct kernels and 14 dispatchers (cpu level rotating with len) x 3 seeds end-flush + start-flush "
     "+ 7 misalignments + every split point for len<=300. Generated: symbol/dispatcher@12 cpu levels, full-width seeds, len up to 1 MiB, alignment 0..63, "
     "data kinds incl. all-0xFF, 0..4 random cuts; Adler around multiples of 5552 with maximal seed; thorough adds > 2^28-byte Adler buffers. Non-trivial: len >= 16.",
     lambda tier: [S("C04", 500000 if tier == "quick" else 6000000)],
     assumptions=["reference CRC: Rocksoft model, bit-serial, self-tested against published check values at start-up",
                  "seed/xor conventions: crc16_t10dif and crc32_iscsi raw; all others invert seed and result (crc64_base.c documents it)",
                  "Adler seeds are canonical (both halves < 65521) as RFC 1950 defines; non-canonical seeds are run but not judged"])

plan("C03", "exploration",
     "Systematic: every one of the 40 direct gf_Nvect_dot_prod_* kernels x len = documented minimum .. +140 (thorough +300) x k 1..5 x {end-flush, start-flush, misaligned}. "
     "Generated: kernel / ec_encode_data_{base,sse,avx,avx2,avx512,avx2_gfni,avx512_gfni} / dispatcher under 12 simulated cpu levels (tables from the matching builder), "
     "k 1..255, rows 1..14, len 0..70000 (boundary-biased), per-buffer alignment 0..63 and flush placement, structured and uniform coefficients. "
     "Non-trivial: k>=2, a coefficient outside {0,1}, len >= kernel minimum.",
     lambda tier: [S("C03", 150000), S("C03", 10000, cfg="gflarge")] if tier == "quick" else [S("C03", 2000000), S("C03", 200000, cfg="gflarge")],
     assumptions=["reference: carry-less multiply mod 0x11D", "direct per-ISA kernels are never called below their documented minimum length or with k == 0",
                  "dispatched gf_vect_dot_prod is paired with ec_init_tables_base (32-byte tables), ec_encode_data with the dispatched ec_init_tables"])

plan("C13", "exploration",
     "Systematic: every one of the 42 direct gf_Nvect_mad_* kernels x len = documented minimum .. +140 (thorough +300) x placements. Generated: mad kernels (k 1..64/255, vec_i, "
     "len to 70000, alignment), ec_encode_data_update_{base,sse,avx,avx2,avx512,avx2_gfni,avx512_gfni} and the dispatcher under 12 cpu levels driven as a state machine "
     "(generated permutation of update order, cancelling double applications, model compared after every step), dispatched gf_vect_mad, gf_vect_mul_{base,sse,avx}+dispatcher. "
     "Non-trivial: k>=2, rows>=2, non-identity order.",
     lambda tier: [S("C13", 280000), S("C13", 20000, cfg="gflarge")] if tier == "quick" else [S("C13", 3500000), S("C13", 300000, cfg="gflarge")],
     assumptions=["reference: carry-less multiply mod 0x11D", "direct kernels are not called below their documented minimum length",
                  "gf_vect_mul: len multiple of 32 and 32-byte aligned buffers as documented"])

plan("C08", "exploration",
     "Generated: xor_gen_{base,sse,avx,avx512}, pq_gen_{base,sse,avx,avx2,avx512}, xor_check_{base,sse}, pq_check_{base,sse} and the four dispatchers under 12 cpu levels; "
     "vects from the minimum to 257, len small multiples / every residue 0..1100 / up to 40000 (rounded to the documented multiple), documented alignment only "
     "(incl. 32-but-not-64), guard-paged blocks. Checks: every single-byte corruption of every block when vects*len <= 1600, 24 sampled otherwise. Non-trivial: len>=32, vects>min.",
     lambda tier: [S("C08", 200000 if tier == "quick" else 2500000)],
     assumptions=["reference P/Q from carry-less GF(2^8)/0x11D arithmetic", "only the vects minimum is asserted for argument rejection (length-multiple handling differs by variant and is not claimed)"])

plan("C09", "exploration",
     "gf_invert_matrix on generated n x n matrices (n<=128; random, rank-deficient by construction, zero-pivot shapes) against reference rank and product; generator formulas for all (m,k), "
     "m<=20 (thorough 40) exhaustively plus sampled up to 256; minor enumeration over the documented safe table of gf_gen_rs_matrix and Cauchy families (complete in both tiers); "
     "all erasure patterns for m<=15 (thorough 16); end-to-end encode/erase/invert/recover with generated patterns. Non-trivial: n>=4 or >=2 erasures.",
     lambda tier: [S("C09", 110000), S("C09", 10000, cfg="gflarge")] if tier == "quick" else [S("C09", 1500000), S("C09", 150000, cfg="gflarge")],
     assumptions=["reference rank/product from carry-less GF(2^8)/0x11D arithmetic",
                  "a k x k survivor matrix of [I;P] is regular iff the minor (erased data columns x chosen parity rows) of P is regular",
                  "documented RS exponent convention is parsed from include/erasure_code.h"])

plan("C16", "exploration",
     "Exhaustive: every dependency-closed assignment of the 23 examined CPUID.1:ECX / CPUID.7.0:EBX,ECX / XCR0 bits, the real resolver of each of the 42 entry points executed with "
     "CPUID/XGETBV intercepted; ISA classes required by the selected symbol and everything it reaches (recursive-descent disassembly of the freshly built binary) must be offered; "
     "portable fallback when no SSE4.x set is enabled; one cross-unit functional workload per distinct selected tuple compared with the portable tuple. Informational sweep with "
     "weak closure (free SSE3/SSSE3/Avoton) recorded only. Non-trivial: configuration other than base/host.",
     lambda tier: [S("C16", 12000 if tier == "quick" else 150000)],
     exhaustive=True,
     assumptions=["ISA needs come from disassembly (objdump) classified by encoding (legacy/VEX/EVEX+length) and mnemonic; unknown legacy mnemonics are baseline",
                  "strong dependency closure: SSE4.2->SSE4.1, AVX->SSE4.2, AVX2->AVX, AVX512F->AVX2, {DQ,CD,BW,VL,VNNI,VPOPCNTDQ}->F, {VBMI2,BITALG}->BW, {VAES,VPCLMULQDQ}->AVX, XCR0 rules",
                  "SSE3/SSSE3 are tied to SSE4.1 and the CPU signature is non-Avoton in the enforced space"])

plan("C01", "exploration",
     "Generated: data recipes (empty, tiny, repetitive, incompressible > 64 KiB so stored blocks split, > 2*32 KiB+look-ahead so the window wraps, long-range repeats) x level 0-3 x flush x "
     "5 wrapper modes x hist_bits 0-15 x {default, static, custom-from-data, custom-from-random-histogram} x 6 level_buf sizes (and NULL for stateless level 1) x {stateless, one call, streaming "
     "with generated in/out chunk schedules} x 12 simulated cpu levels; thorough adds the 8 KiB-window and LONGER_HUFFTABLE builds. Oracle: zlib + RFC 1951 reference decoder. "
     "Non-trivial: stream with a match, >=2 blocks or split stored block.",
     lambda tier: [S("C01", 30000), S("C01", 4000, cfg="hist8k"), S("C01", 4000, cfg="longhuff")] if tier == "quick" else [S("C01", 400000), S("C01", 60000, cfg="hist8k"), S("C01", 60000, cfg="longhuff"), F("C01", 8000)],
     assumptions=["zlib 1.2.13 inflate and an RFC 1951 decoder written for this framework are the independent decoders",
                  "output space is generous here (tight space is C10)", "hist_bits is generated in 0..15 as documented"])

plan("C02", "exploration",
     "Generated valid streams: deflate grammar programs (stored/fixed/dynamic in any order, empty blocks, random Kraft-complete codes with lengths up to 15, single-code and empty distance alphabets, "
     "16/17/18 runs crossing the table boundary, every length/distance symbol, overlap, dist 32768, final block near 2/4 KiB), zlib-encoded recipes (all levels/strategies/windowBits/memLevel/flush kinds) "
     "and ISA-L-encoded ones; wrappers raw/gzip(optional fields)/zlib x crc_flag x API x decode kernel via cpu level x hist_bits x appended garbage. Non-trivial: has a Huffman-coded match.",
     lambda tier: [S("C02", 26000), S("C02", 4000, cfg="hist8k"), S("C02", 4000, cfg="longhuff"), S("C02", 2000, cfg="nostatic")] if tier == "quick" else [S("C02", 400000), S("C02", 60000, cfg="hist8k"), S("C02", 60000, cfg="longhuff"), S("C02", 30000, cfg="nostatic"), F("C02", 8000)],
     label_floors={"valid_streams": {"litlen-code>=13bits": 0.02, "dist=32768": 0.002, "blocks>=3": 0.05, "repeat-crosses-litlen/dist-boundary": 0.01}},
     assumptions=["streams are strictly valid: complete codes or the degenerate alphabets zlib accepts; every generated stream is first decoded by the reference decoder and by zlib, which must agree"])

plan("C10", "exploration",
     "One-shot: inputs biased to incompressible/empty (0..70, 65530..65540, 131065..131075, up to 300 KiB) x level x wrapper x flush x avail_out around 0 / compressed size / bound, every value 0..bound+16 "
     "for small inputs; streaming: tiny output buffer sequences with end_of_stream; invalid parameters. Output chunks end at guard pages. Non-trivial: avail_out within 16 of the bound or compressed size, or a buffer < 8 bytes.",
     lambda tier: [S("C10", 24000), S("C10", 3000, cfg="hist8k"), S("C10", 1500, cfg="longhuff")] if tier == "quick" else [S("C10", 300000), S("C10", 30000, cfg="hist8k"), S("C10", 20000, cfg="longhuff"), F("C10", 8000)],
     assumptions=["bound = len + 5*max(1,ceil(len/65535)) + (10,8) gzip / (0,8) gzip-no-hdr / (2,4) zlib / (0,4) zlib-no-hdr / 0 raw as stated by the property",
                  "either ISAL_INVALID_LEVEL or ISAL_INVALID_LEVEL_BUF is accepted for a missing/undersized level buffer"])

plan("C14", "exploration",
     "Generated histories: 1-5 feed steps each followed by a NO/SYNC/FULL flush request, drained through generated output chunkings (down to 1-byte buffers), x level x wrapper x hist_bits x cpu level; "
     "segments after a flush copy content from before it. Plus sequences of one-shot raw-deflate FULL_FLUSH calls. Non-trivial: a completed flush followed by >= 64 bytes repeating pre-flush content.",
     lambda tier: [S("C14", 70000), S("C14", 6000, cfg="hist8k")] if tier == "quick" else [S("C14", 1000000), S("C14", 100000, cfg="hist8k"), S("C14", 60000, cfg="longhuff"), F("C14", 8000)],
     assumptions=["flush-point clauses are asserted only under the property's precondition (all input consumed, output space left)"])

plan("C11", "fault_enumeration",
     "Producer: generated inputs/levels/wrappers/chunkings, trailer compared with zlib crc32/adler32. Verifier: small wrapped streams from three encoders x 4 verifying modes x chunkings x kernels with "
     "EVERY single-bit flip, EVERY truncation and a byte substitution at every offset (header, body, trailer); larger streams with a call boundary on every trailer byte and sampled corruptions. "
     "Non-trivial: a corruption that changes the delivered bytes or the trailer.",
     lambda tier: [S("C11", 2800), S("C11", 200, cfg="hist8k")] if tier == "quick" else [S("C11", 35000), S("C11", 3000, cfg="hist8k")],
     assumptions=["success after a benign header flip (MTIME/XFL/OS) is correct: the oracle compares the delivered bytes with the trailer actually present",
                  "the position of the trailer in a corrupted stream comes from the lenient RFC 1951 reference decoder"])

plan("C07", "exploration",
     "Systematic: for small inputs/streams every single split point of the input and of the output, and all pairs of (input chunk, output chunk) sizes from {0,1,2,7,8,9,15,16,17,31,32,33,255,256,257,328,329,big}; "
     "generated histories (refill-before-drain, zero-length buffers, per-call flush changes, late end_of_stream, fresh mapping per chunk) for compression and decompression (valid and corrupted streams), "
     "x levels x wrappers (gzip with FEXTRA/FNAME/FCOMMENT/FHCRC) x cpu levels. Oracle: decode == concatenated input; streaming inflate == one-shot inflate. Non-trivial: >= 3 calls with a boundary inside the data.",
     lambda tier: [S("C07", 48000), S("C07", 2000, cfg="hist8k")] if tier == "quick" else [S("C07", 150000), S("C07", 15000, cfg="hist8k"), S("C07", 8000, cfg="longhuff")],
     assumptions=["after end_of_stream no more input is supplied", "compressed bytes may differ between schedules: only decoded data is compared"])

plan("C06", "fault_enumeration",
     "Mutants of valid streams (three encoders, all wrapper modes): every truncation, every single-bit flip, a byte substitution at every offset for streams <= 400 bytes; grammar-level single faults from the "
     "deflate generator and wrapper-level single faults with padding (documented error class); random bytes and multiply damaged streams with small output limits; x APIs x chunk schedules x decode kernels. "
     "Oracle: guard pages/canaries, documented codes, provable-livelock rule, lenient RFC 1951 reference (no false success), zlib agreement on strictly valid raw streams. "
     "Non-trivial: mutant got past the wrapper and produced output.",
     lambda tier: [S("C06", 5000), S("C06", 400, cfg="nostatic"), F("C06", 1000)] if tier == "quick" else [S("C06", 80000), S("C06", 6000, cfg="nostatic"), F("C06", 20000)],
     assumptions=["error-class equality is asserted only for constructed single faults followed by >= 16 padding bytes", "incomplete code sets are a grey zone: neither acceptance nor rejection is an alarm",
                  "rejection of something the lenient reference accepts is never an alarm"],
     engine_name="pbt-tape (rapidcheck) + coverage-guided stage (libFuzzer, ASan) over the same bodies",
     technique="property-based testing (rapidcheck generators + shrinking) and coverage-guided fuzzing (libFuzzer with AddressSanitizer; input bytes decode to the same choice tape), both against an independent oracle")

plan("C19", "exploration",
     "Writers: generated gzip field values/optional-field subsets (extra to 65535 bytes) and zlib (info 0-15, level, dict flag/id) x output sizes around the required size, compared with an independent RFC 1952/1950 "
     "writer and parsed by zlib; readers: headers from the reference writer and from zlib (deflateSetHeader, deflateSetDictionary) under one piece / every split / byte-wise / random pieces, caller buffers NULL/exact/"
     "undersized with grow-and-resume, corrupted HCRC/FCHECK/CM; arbitrary bytes on guard-paged buffers. Non-trivial: >= 2 optional fields, split inside the header, or overflow-resume.",
     lambda tier: [S("C19", 200000)] if tier == "quick" else [S("C19", 2500000), F("C19", 8000)],
     assumptions=["name and comment passed to the writer are NUL-terminated inside their buffers", "resume after overflow follows the in-tree protocol: grow the buffer keeping its contents, call again"])

plan("C18", "exploration",
     "Generated histograms (all-zero, single symbol, sparse, uniform, powers of two, Fibonacci-like beyond the depth limit, random with random scale, full 44-bit range, collected from data by "
     "isal_update_histogram_{base,01,04} and the dispatcher) through both builders: Kraft-complete codes <= 15 bits, bit-buffer bound, stored header re-parsed by the reference decoder; level-0 compression "
     "round trips with the table (any data / data from the support) under all APIs and flush modes; set_hufftables refused mid-block. Thorough adds the LONGER_HUFFTABLE build. Non-trivial: depth-limited "
     "or tiny-support histogram, or a round trip with a match.",
     lambda tier: [S("C18", 90000), S("C18", 8000, cfg="longhuff"), S("C18", 8000, cfg="hist8k")] if tier == "quick" else [S("C18", 1200000), S("C18", 150000, cfg="longhuff"), S("C18", 150000, cfg="hist8k"), F("C18", 8000)],
     assumptions=["subset builder: only byte values with a non-zero literal count are compressed", "collected histograms are used as inputs; their exact counts are not prescribed (collectors use different match finders)"])

plan("C17", "exploration",
     "Window: hist_bits w (9..15, plus 1..8 for the round trip) with repeats placed exactly at 2^w+-3, 32768+-3 and 65536+-3 x level x flush x API x cpu level; dictionaries of 1..70000 bytes with data "
     "copied from the dictionary tail, head and middle, set directly and via process_dict/reset_dict, decoded by the reference decoder, zlib and ISA-L primed with the same dictionary; wrong-state calls. "
     "Thorough adds the 8 KiB-window and LONGER_HUFFTABLE builds. Non-trivial: match distance > 2^(w-1) or a match into the dictionary.",
     lambda tier: [S("C17", 15000), S("C17", 2000, cfg="hist8k"), S("C17", 1500, cfg="longhuff")] if tier == "quick" else [S("C17", 200000), S("C17", 30000, cfg="hist8k"), S("C17", 30000, cfg="longhuff"), F("C17", 8000)],
     assumptions=["dictionaries are installed at stream start", "byte equality set_dict == tail-only == process/reset is sound because both paths hash the same bytes with the same mask at total_in == 0",
                  "struct isal_dict is zeroed before isal_deflate_process_dict, as the in-tree callers do"])

plan("C05", "exploration",
     "Every data-plane symbol (CRC/Adler, zero-detect, EC, RAID: direct per-ISA kernels and dispatchers under 12 cpu levels) x lengths {0, 1, every vector-width remainder, around a page, random} x both guard "
     "placements; igzip one-shot and auxiliary entry points with exact-size mappings; streaming compression and decompression histories with one mapping per chunk that is unmapped the moment the call returns "
     "and relocation of unconsumed input, whose results must still be correct. Faults are converted to failures. Non-trivial: a vector tail (len not multiple of 64) or a history with >= 2 calls.",
     lambda tier: [S("C05", 54000), S("C05", 4000, cfg="hist8k")] if tier == "quick" else [S("C05", 800000), S("C05", 60000, cfg="hist8k"), S("C05", 40000, cfg="longhuff"), F("C05", 8000)],
     assumptions=["direct kernels are not called below their documented minimum length or with misaligned RAID buffers", "relocating unconsumed input between calls is legal (the codec recomputes its base from next_in - total_in)",
                  "level_buf is 16-byte aligned as any malloc'ed buffer"])

plan("C15", "exploration",
     "The harness links the library as a shared object, resolves every dispatcher (warm-up), makes the library's own writable mappings read-only and then runs: the cross-unit workload from 2..16 threads "
     "(write to library data = fault, results == serial), warm snapshot diff, forked cold-start races with all slots re-armed, determinism under two garbage pre-fills of context/level_buf/output/"
     "hufftables/isal_dict, and reuse histories (A possibly abandoned, reset/init, B == fresh B). Interleavings are sampled, not enumerated. Non-trivial: >= 2 threads or a mid-stream abandon.",
     lambda tier: [S("C15", 16000 if tier == "quick" else 200000, workers=8)],
     assumptions=["thread interleavings are not enumerated: the structural premise (no write to library data after selection) is monitored by page protection",
                  "user-supplied fields are re-set after isal_deflate_reset / isal_inflate_reset, which document that they keep them",
                  "struct isal_dict.level is initialised by the caller (the function reads it first)"])
