"""Per-property run plans: which harness binaries, build configurations and
case budgets make up the quick and the thorough tier.  Budgets are case
counts (never per-case timers)."""


def S(bin, cases, cfg="native", **kw):
    d = {"cfg": cfg, "bin": bin, "cases": cases}
    d.update(kw)
    return d


PLANS = {}


def plan(pid, level, rule, stages, **kw):
    d = {"level": level, "rule": rule, "stages": stages}
    d.update(kw)
    PLANS[pid] = d


plan("C12", "exploration",
     "Exhaustive enumeration: all 65536 (a,b) pairs x all 256 third operands, all 256 inverses, all 256 constants x "
     "(32 table bytes, 256 table-driven products, 256 GFNI-matrix products), in the default and the GF_LARGE_TABLES build; "
     "plus generated (k, rows, coefficient matrix) cases through ec_init_tables_base and the dispatched ec_init_tables. "
     "Non-trivial: both operands non-zero / constant > 1 / at least two coefficients.",
     lambda tier: [S("C12", 4000), S("C12", 4000, cfg="gflarge")],
     exhaustive=True,
     assumptions=["reference: carry-less multiply reduced by 0x11D written from the definition",
                  "software model of GF2P8AFFINEQB (Intel SDM bit order) for the GFNI table"])


def setup_external(BUILD, REPO, VERIF):
    return True


def run_external(*a, **k):
    return {}


def run_fuzz(*a, **k):
    return {}


def replay_external(r, path):
    return "error", "no external engine"
