#!/bin/bash
# run every claimed check (default quick) on the current tree and validate the evidence files
tier=${1:-quick}
cd /verif
fail=0
for p in $(python3 -c "import json;print(' '.join(c['property_id'] for c in json.load(open('MANIFEST.json'))['checks']))"); do
  s=$(date +%s)
  out=$(timeout ${RUNALL_TIMEOUT:-3000} ./check run $p --tier $tier 2>&1); rc=$?
  echo "$p rc=$rc $(( $(date +%s) - s ))s $(echo "$out" | grep -E '^(OK|VIOLATION|BROKEN)' | head -2 | cut -c1-160)"
  [ $rc -ne 0 ] && fail=1
done
python3-vt - <<'PY'
import json,jsonschema,glob
s=json.load(open('/root/.vp/EVIDENCE.schema.json'))
bad=0
for f in sorted(glob.glob('/verif/evidence/*.json')):
    try: jsonschema.validate(json.load(open(f)),s)
    except Exception as e: print(f,"INVALID",str(e)[:200]); bad=1
print("evidence", "INVALID" if bad else "all valid")
PY
exit $fail
