#!/bin/bash
# usage: seedrun.sh <tier> <seeddir> <Cxx[,Cyy]>  -- apply a seeded change to /repo, run the checks, undo (via mutrun.sh)
tier=$1; sd=$2; props=$3
out=$(MUT_TIMEOUT=${MUT_TIMEOUT:-900} /verif/tools/mutrun.sh $props $tier --patch $sd/patch.diff 2>&1)
echo "$out" > $sd/run.$tier.log
caught=$(echo "$out" | grep -c "^VIOLATION")
echo "SEEDRUN $sd tier=$tier props=$props violations=$caught $(echo "$out" | grep -E '^== ' | tr '\n' ' ')"
git -C /repo status --short | grep -v '^??' | head -3
