#!/usr/bin/env python3
"""Run only a coverage-guided stage of one property (development aid; the registered commands go through ./check run).
usage: fuzztry.py Cxx <total-runs> [workers]   -- prints per-sub evaluation counts and any failure/crash"""
import importlib.machinery, importlib.util, json, os, sys, time
V = os.path.dirname(os.path.dirname(os.path.abspath(__file__)))
ld = importlib.machinery.SourceFileLoader("vcheck", os.path.join(V, "check"))
m = importlib.util.module_from_spec(importlib.util.spec_from_loader("vcheck", ld))
ld.exec_module(m)
pid, runs = sys.argv[1], int(sys.argv[2])
nw = int(sys.argv[3]) if len(sys.argv) > 3 else 8
known, _ = m.known_findings(pid)
stage = m.plans.F(pid, runs, workers=nw)
if not m.build("asan", [pid]):
    sys.exit(2)
t0 = time.time()
r = m.run_stage(pid, "thorough", int(os.environ.get("VERIF_SEED", "1")), stage, [k for k, _ in known], os.path.join(m.BUILD, "run", "fuzztry-" + pid))
print(pid, "wall %.1fs" % (time.time() - t0))
for n, s in sorted(r["subs"].items()):
    print("  %-40s evals=%d nontrivial=%d skips=%d" % (n, s["evaluations"], s["nontrivial_evals"], s["skips"]))
for k in ("failures", "crashes", "inconclusive", "broken"):
    if r[k]:
        print(k.upper(), json.dumps(r[k])[:3000])
