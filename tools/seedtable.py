#!/usr/bin/env python3
"""Markdown table of the seeded changes for DESIGN.md 9.7 (from seeded/*/meta.json and seeded/history_round2.json)."""
import json, os, re
hist2 = json.load(open("/verif/seeded/history_round2.json"))
rows = []
for sid in sorted(os.listdir("/verif/seeded")):
    mp = os.path.join("/verif/seeded", sid, "meta.json")
    if not os.path.exists(mp):
        continue
    m = json.load(open(mp))
    note = m.get("needs_to_manifest", "").replace("\n", " ").replace("|", "/")
    note = re.sub(r"^Change \d+\s*[-–(:]*\s*", "", note)
    short = note[:230] + ("…" if len(note) > 230 else "")
    runs = m.get("checks_run", [])
    own = [r for r in runs if (" %s --tier" % m["breaks_property"]) in r["cmd"] or r["cmd"].count("./check run %s " % m["breaks_property"])]
    own1 = [r for r in own if r.get("verif_seed", 1) == 1]
    own2 = [r for r in own if r.get("verif_seed", 1) == 2]
    last_own = own1[-1]["result"] if own1 else "-"
    last_own2 = own2[-1]["result"] if own2 else "-"
    caught = ", ".join(m.get("caught_by", [])) or "-"
    h = m.get("history") or hist2.get(sid, "")
    rows.append((sid, ", ".join(os.path.basename(f) for f in m["files_changed"]), short, last_own, last_own2, caught, h.replace("|", "/")))
print("| seed | file(s) | change and what it needs to manifest (from the author's notes) | own property's quick check, VERIF_SEED=1 | same, VERIF_SEED=2 | all checks that caught it | history |")
print("|---|---|---|---|---|---|---|")
for r in rows:
    print("| %s | %s | %s | %s | %s | %s | %s |" % r)
n = len(rows)
print()
print("%d seeded changes; caught by the quick check of their own property: %d; caught by some registered quick check: %d." % (
    n, sum(1 for r in rows if r[3] == "caught"), sum(1 for r in rows if r[5] != "-")))
print("With VERIF_SEED=2: caught by the quick check of their own property: %d of %d run." % (sum(1 for r in rows if r[4] == "caught"), sum(1 for r in rows if r[4] != "-")))
