#!/usr/bin/env python3
"""ISA-class requirements of every library symbol, from the disassembly of a
freshly linked harness binary (feeds the oracle of C16).

For each function symbol: recursive descent from its entry (asm symbols; data
lives in .text there, so a linear sweep would decode junk) or a linear sweep
over its extent (compiler-generated C functions, which have a size and may
contain jump tables), following direct jumps and calls.  A jump through a
dispatch slot (`jmp [X_dispatched]`) is recorded as a dependency on entry
point X instead of being followed.

usage: isa_classify.py <binary> <slots.inc> <out.txt>
out lines:  <symbol> <required classes,|-> <informational classes,|-> <deps,|-> <unknown mnemonics,|->
"""
import re
import subprocess
import sys

JUDGED = ["SSE3", "SSSE3", "SSE41", "SSE42", "PCLMUL", "AVX", "AVX2", "AVX512F", "AVX512DQ", "AVX512CD", "AVX512BW", "AVX512VL",
          "VBMI2", "GFNI", "VAES", "VPCLMULQDQ", "VNNI", "BITALG", "VPOPCNTDQ"]
INFO = ["BMI1", "BMI2", "LZCNT", "POPCNT", "MOVBE", "AESNI", "FMA", "F16C", "VBMI", "IFMA", "ADX", "INDIRECT", "XGETBV", "CPUID"]

SSE3 = {"lddqu", "movddup", "movshdup", "movsldup", "haddps", "haddpd", "hsubps", "hsubpd", "addsubps", "addsubpd", "fisttp"}
SSSE3 = {"pshufb", "palignr", "pabsb", "pabsw", "pabsd", "phaddw", "phaddd", "phaddsw", "phsubw", "phsubd", "phsubsw", "pmaddubsw", "pmulhrsw", "psignb", "psignw", "psignd"}
SSE41 = {"pextrb", "pextrd", "pextrq", "pinsrb", "pinsrd", "pinsrq", "ptest", "pblendvb", "pblendw", "pmulld", "pmuldq", "movntdqa", "pminud", "pmaxud", "pminsd", "pmaxsd",
         "pminuw", "pmaxuw", "pminsb", "pmaxsb", "pcmpeqq", "packusdw", "blendvps", "blendvpd", "blendps", "blendpd", "roundps", "roundpd", "roundss", "roundsd", "dpps", "dppd",
         "insertps", "extractps", "mpsadbw", "phminposuw"}
SSE41_PFX = ("pmovzx", "pmovsx")
SSE42 = {"crc32", "pcmpgtq", "pcmpestri", "pcmpestrm", "pcmpistri", "pcmpistrm"}
BMI1 = {"andn", "bextr", "blsi", "blsmsk", "blsr", "tzcnt"}
BMI2 = {"bzhi", "mulx", "pdep", "pext", "rorx", "sarx", "shlx", "shrx"}
AESNI = {"aesenc", "aesenclast", "aesdec", "aesdeclast", "aesimc", "aeskeygenassist"}

# AVX2-only mnemonics even at 128 bits
AVX2_ANY = ("vpbroadcast", "vperm2i128", "vinserti128", "vextracti128", "vpermd", "vpermq", "vpermps", "vpermpd", "vpgather", "vgather", "vpmaskmov", "vpsllv", "vpsrlv", "vpsrav",
            "vbroadcasti128", "vpblendd")
# VEX 256-bit mnemonics that are plain AVX (floating point / lane moves / loads+stores)
AVX_256 = ("vmov", "vxorp", "vandp", "vandnp", "vorp", "vadd", "vsub", "vmul", "vdiv", "vperm2f128", "vinsertf128", "vextractf128", "vbroadcast", "vpermil", "vptest", "vtestp",
           "vblend", "vshuf", "vunpck", "vzero", "vlddqu", "vmask", "vcvt", "vround", "vsqrt", "vmin", "vmax", "vcmp", "vhadd", "vhsub", "vdpp", "vrcp", "vrsqrt", "vaddsub")

EVEX_BW = ("vmovdqu8", "vmovdqu16", "vpaddb", "vpaddw", "vpadds", "vpaddus", "vpsubb", "vpsubw", "vpsubs", "vpsubus", "vpshufb", "vpshufhw", "vpshuflw", "vpcmpb", "vpcmpw", "vpcmpub", "vpcmpuw",
           "vpcmpeqb", "vpcmpeqw", "vpcmpgtb", "vpcmpgtw", "vpblendmb", "vpblendmw", "vpbroadcastb", "vpbroadcastw", "vpmovb2m", "vpmovw2m", "vpmovm2b", "vpmovm2w", "vpsllw", "vpsrlw", "vpsraw",
           "vpsllvw", "vpsrlvw", "vpsravw", "vpalignr", "vpackus", "vpackss", "vpunpcklbw", "vpunpckhbw", "vpunpcklwd", "vpunpckhwd", "vpmaddubsw", "vpmaddwd", "vpmullw", "vpmulhw", "vpmulhuw",
           "vpmulhrsw", "vpminub", "vpminuw", "vpminsb", "vpminsw", "vpmaxub", "vpmaxuw", "vpmaxsb", "vpmaxsw", "vpavgb", "vpavgw", "vpabsb", "vpabsw", "vpsadbw", "vpslldq", "vpsrldq",
           "vpermw", "vpermi2w", "vpermt2w", "vptestmb", "vptestmw", "vptestnmb", "vptestnmw", "vdbpsadbw", "vpextrb", "vpextrw", "vpinsrb", "vpinsrw", "vpmovwb", "vpmovswb", "vpmovuswb",
           "vpmovzxbw", "vpmovsxbw", "kmovd", "kmovq", "kaddd", "kaddq", "kandd", "kandq", "kandnd", "kandnq", "kord", "korq", "kxord", "kxorq", "kxnord", "kxnorq", "knotd", "knotq",
           "kortestd", "kortestq", "ktestd", "ktestq", "kshiftld", "kshiftlq", "kshiftrd", "kshiftrq", "kunpckdq", "kunpckwd")
EVEX_DQ = ("vpmullq", "vcvtqq", "vcvtuqq", "vcvtpd2qq", "vcvtps2qq", "vcvttpd2qq", "vcvttps2qq", "vcvtpd2uqq", "vcvtps2uqq", "vcvttpd2uqq", "vcvttps2uqq", "vandps", "vandpd", "vandnps", "vandnpd",
           "vorps", "vorpd", "vxorps", "vxorpd", "vbroadcastf32x2", "vbroadcasti32x2", "vbroadcastf64x2", "vbroadcasti64x2", "vbroadcastf32x8", "vbroadcasti32x8", "vextractf64x2", "vextracti64x2",
           "vextractf32x8", "vextracti32x8", "vinsertf64x2", "vinserti64x2", "vinsertf32x8", "vinserti32x8", "vpmovd2m", "vpmovq2m", "vpmovm2d", "vpmovm2q", "vrangep", "vranges", "vreducep",
           "vreduces", "vfpclass", "vpextrd", "vpextrq", "vpinsrd", "vpinsrq", "kmovb", "kaddb", "kaddw", "kandb", "kandnb", "korb", "kxorb", "kxnorb", "knotb", "kortestb", "ktestb", "ktestw",
           "kshiftlb", "kshiftrb")
EVEX_CD = ("vpconflict", "vplzcnt", "vpbroadcastmb2q", "vpbroadcastmw2d")
EVEX_VBMI2 = ("vpcompressb", "vpcompressw", "vpexpandb", "vpexpandw", "vpshld", "vpshrd")
EVEX_VBMI = ("vpermb", "vpermi2b", "vpermt2b", "vpmultishiftqb")
K_F = ("kmovw", "kandw", "kandnw", "korw", "kxorw", "kxnorw", "knotw", "kortestw", "kshiftlw", "kshiftrw", "kunpckbw")


def classify(raw, mnem, ops):
    """returns (set of classes, unknown flag)"""
    b = list(raw)
    i = 0
    while i < len(b) and b[i] in (0x66, 0xF2, 0xF3, 0x2E, 0x36, 0x3E, 0x26, 0x64, 0x65, 0x67, 0xF0):
        i += 1
    enc = "legacy"
    vl = 128
    if i < len(b) and b[i] == 0x62 and len(b) - i >= 5:
        enc = "evex"
        p2 = b[i + 3]
        ll = (p2 >> 5) & 3
        vl = (128, 256, 512, 512)[ll]
        if "zmm" in ops:
            vl = 512
        elif "ymm" in ops and vl < 256:
            vl = 256
    elif i < len(b) and b[i] in (0xC4, 0xC5):
        enc = "vex"
        if "ymm" in ops or "YMMWORD" in ops:
            vl = 256
    m = mnem
    cls = set()
    if m in ("cpuid",):
        return {"CPUID"}, False
    if m in ("xgetbv",):
        return {"XGETBV"}, False
    if enc == "evex" or m.startswith("k") and m in (K_F + EVEX_BW + EVEX_DQ):
        if m.startswith("k") and enc != "evex":
            # opmask instructions are VEX-encoded
            if m in K_F:
                return {"AVX512F"}, False
            if m in EVEX_BW:
                return {"AVX512F", "AVX512BW"}, False
            if m in EVEX_DQ:
                return {"AVX512F", "AVX512DQ"}, False
        cls.add("AVX512F")
        if vl < 512 and not m.endswith(("ss", "sd")) and m not in ("vmovd", "vmovq"):
            cls.add("AVX512VL")
        if m.startswith("vgf2p8"):
            cls.add("GFNI")
        elif m.startswith("vaes"):
            cls.add("VAES")
        elif m.startswith("vpclmul"):
            cls.add("VPCLMULQDQ")
        elif m.startswith(EVEX_VBMI2):
            cls.add("VBMI2")
        elif m.startswith(EVEX_VBMI):
            cls.add("VBMI")
        elif m.startswith("vpdpbus") or m.startswith("vpdpwss"):
            cls.add("VNNI")
        elif m in ("vpopcntb", "vpopcntw", "vpshufbitqmb"):
            cls.add("BITALG")
        elif m in ("vpopcntd", "vpopcntq"):
            cls.add("VPOPCNTDQ")
        elif m.startswith("vpmadd52"):
            cls.add("IFMA")
        elif m.startswith(EVEX_CD):
            cls.add("AVX512CD")
        elif m.startswith(EVEX_DQ):
            cls.add("AVX512DQ")
        elif m.startswith(EVEX_BW):
            cls.add("AVX512BW")
        return cls, False
    if enc == "vex":
        if m in BMI1:
            return {"BMI1"}, False
        if m in BMI2:
            return {"BMI2"}, False
        if m.startswith("k"):
            return {"AVX512F"}, False
        cls.add("AVX")
        if m.startswith("vgf2p8"):
            cls.add("GFNI")
        elif m.startswith("vpclmul"):
            cls.add("VPCLMULQDQ" if vl == 256 else "PCLMUL")
        elif m.startswith("vaes"):
            cls.add("VAES" if vl == 256 else "AESNI")
        elif m.startswith("vfm") or m.startswith("vfnm"):
            cls.add("FMA")
        elif m.startswith("vcvtph2ps") or m.startswith("vcvtps2ph"):
            cls.add("F16C")
        elif m.startswith(AVX2_ANY) and not (m.startswith("vbroadcast") and "PTR" in ops and not m.startswith("vbroadcasti128")):
            # register-source vbroadcastss/sd is AVX2, memory-source is AVX
            if m.startswith("vbroadcasts") and "PTR" in ops:
                pass
            else:
                cls.add("AVX2")
        elif vl == 256 and m.startswith("vp") and not m.startswith(("vperm2f128", "vpermil", "vptest")):
            cls.add("AVX2")
        elif vl == 256 and m == "vmovntdqa":
            cls.add("AVX2")
        return cls, False
    # legacy encodings
    if m in SSE3:
        return {"SSE3"}, False
    if m in SSSE3:
        return {"SSSE3"}, False
    if m in SSE41 or m.startswith(SSE41_PFX):
        return {"SSE41"}, False
    if m == "pextrw" and "PTR" in ops.split(",")[0]:
        return {"SSE41"}, False
    if m in SSE42:
        return {"SSE42"}, False
    if m == "pclmulqdq" or m.startswith("pclmul"):
        return {"PCLMUL"}, False
    if m.startswith("gf2p8"):
        return {"GFNI"}, False
    if m in AESNI:
        return {"AESNI"}, False
    if m == "popcnt":
        return {"POPCNT"}, False
    if m == "lzcnt":
        return {"LZCNT"}, False
    if m == "tzcnt":
        return {"BMI1"}, False
    if m == "movbe":
        return {"MOVBE"}, False
    if m in ("adcx", "adox"):
        return {"ADX"}, False
    return set(), False


def main():
    binary, slots_inc, out = sys.argv[1:4]
    slots = re.findall(r"SLOT\((\w+)\)", open(slots_inc).read())
    slotset = set(slots)
    # symbols with sizes
    nm = subprocess.run(["nm", "-S", "--defined-only", binary], stdout=subprocess.PIPE, text=True).stdout
    sym_addr, sym_size = {}, {}
    addr_syms = {}
    for line in nm.splitlines():
        p = line.split()
        if len(p) == 4 and p[2] in "TtWw":
            a, sz, name = int(p[0], 16), int(p[1], 16), p[3]
            sym_addr[name] = a
            sym_size[name] = sz
            addr_syms.setdefault(a, []).append(name)
        elif len(p) == 3 and p[1] in "TtWw":
            a, name = int(p[0], 16), p[2]
            sym_addr.setdefault(name, a)
            sym_size.setdefault(name, 0)
            addr_syms.setdefault(a, []).append(name)
    dis = subprocess.run(["objdump", "-d", "-M", "intel", "--section=.text", binary], stdout=subprocess.PIPE, text=True).stdout
    insn = {}
    order = []
    rx = re.compile(r"^\s*([0-9a-f]+):\t((?:[0-9a-f]{2} )+)\s*\t?(.*)$")
    last = None
    for line in dis.splitlines():
        m = rx.match(line)
        if not m:
            continue
        a = int(m.group(1), 16)
        raw = bytes(int(x, 16) for x in m.group(2).split())
        text = m.group(3).strip()
        if not text:  # continuation line of a long instruction
            if last is not None:
                insn[last][0] += raw
            continue
        parts = text.split(None, 1)
        mn = parts[0]
        ops = parts[1] if len(parts) > 1 else ""
        # strip prefixes printed as mnemonics
        while mn in ("rep", "repz", "repnz", "lock", "notrack", "bnd", "data16", "cs", "ds", "es", "ss", "fs", "gs", "rex.W", "rex") and ops:
            parts = ops.split(None, 1)
            mn = parts[0]
            ops = parts[1] if len(parts) > 1 else ""
        insn[a] = [raw, mn, ops]
        order.append(a)
        last = a
    nxt = {}
    for i, a in enumerate(order):
        nxt[a] = a + len(insn[a][0])
    dispatched_addr = {}
    nmall = subprocess.run(["nm", "--defined-only", binary], stdout=subprocess.PIPE, text=True).stdout
    for line in nmall.splitlines():
        p = line.split()
        if len(p) == 3 and p[2].endswith("_dispatched"):
            dispatched_addr[int(p[0], 16)] = p[2][:-len("_dispatched")]

    # library symbols of interest: everything a slot could hold = all text symbols from the library part; we just do all
    # global-looking names that are not harness/C++ symbols
    cand = [s for s in sym_addr if not s.startswith(("_Z", "_GLOBAL", "__", "_init", "_fini", "_start", "frame_dummy", "register_tm", "deregister_tm", "main")) and "." not in s]
    memo = {}

    def analyse(name):
        if name in memo:
            return memo[name]
        req, deps, unk = set(), set(), set()
        start = sym_addr[name]
        seen = set()
        work = [start]
        size = sym_size.get(name, 0)
        if size:  # C function: linear sweep over its extent as well
            a = start
            while a < start + size and a in insn:
                work.append(a)
                a = nxt[a]
        steps = 0
        while work:
            a = work.pop()
            while a in insn and a not in seen:
                seen.add(a)
                steps += 1
                if steps > 400000:
                    unk.add("descent-limit")
                    work = []
                    break
                raw, mn, ops = insn[a]
                cls, _ = classify(raw, mn, ops)
                req |= cls
                if mn in ("ret", "retq", "hlt", "ud2"):
                    break
                if mn.startswith("j") or mn == "call":
                    tgt = None
                    mt = re.match(r"^([0-9a-f]+) <", ops)
                    if mt:
                        tgt = int(mt.group(1), 16)
                    if tgt is None:
                        md = re.search(r"# ([0-9a-f]+) <(\w+)_dispatched>", ops)
                        if md:
                            deps.add(md.group(2))
                        else:
                            req.add("INDIRECT")
                        if mn == "jmp":
                            break
                    else:
                        # reaching another entry-point stub: dependency, do not follow
                        names = addr_syms.get(tgt, [])
                        ent = [n for n in names if n in slotset]
                        if ent and tgt != start:
                            deps.add(ent[0])
                        else:
                            work.append(tgt)
                        if mn == "jmp":
                            break
                a = nxt[a]
        memo[name] = (req, deps, unk)
        return memo[name]

    with open(out, "w") as f:
        f.write("#classes " + ",".join(JUDGED) + " | " + ",".join(INFO) + "\n")
        for name in sorted(cand):
            req, deps, unk = analyse(name)
            j = [c for c in JUDGED if c in req]
            inf = [c for c in INFO if c in req]
            f.write("%s %s %s %s %s\n" % (name, ",".join(j) or "-", ",".join(inf) or "-", ",".join(sorted(deps)) or "-", ",".join(sorted(unk)) or "-"))


if __name__ == "__main__":
    main()
