#!/usr/bin/env python3
"""Regenerate /verif/MANIFEST.json from tools/plans.py (keeps it valid at all times)."""
import json
import os
import sys

VERIF = os.path.dirname(os.path.dirname(os.path.abspath(__file__)))
sys.path.insert(0, os.path.join(VERIF, "tools"))
import plans  # noqa

props = [json.loads(l) for l in open(os.path.join(VERIF, "properties.jsonl"))]
checks = []
na = []
for p in props:
    pid = p["id"]
    pl = plans.PLANS.get(pid)
    if pl is None or not pl.get("claimed", True):
        na.append({"property_id": pid, "reason": (pl or {}).get("na_reason", "check not built yet in this round; see DESIGN.md section 3 for the planned generated check")})
        continue
    checks.append({
        "property_id": pid,
        "quick_cmd": "./check run %s --tier quick" % pid,
        "thorough_cmd": "./check run %s --tier thorough" % pid,
        "evidence_file": "evidence/%s.json" % pid,
        "replay_cmd_template": "./check replay {path}",
        "engine": pl.get("engine_name", "pbt-tape (rapidcheck)"),
        "level_claimed": {"category": pl["level"], "text": pl.get("level_text", pl["rule"]), "design_ref": "DESIGN.md section 3, %s" % pid},
        "level_note": pl.get("level_note", "; ".join(pl.get("assumptions", [])) or "oracle independent of ISA-L; explored set only"),
        "technique": pl.get("technique", "property-based testing (rapidcheck generators + shrinking) against an independent oracle"),
    })
m = {
    "version": 1,
    "setup_cmd": "./check setup",
    "hooks": {
        "guard": "ISAL_VERIF",
        "enable": "no source change in intel/isa-l: the checks compile /repo's current sources out of tree into /verif/build/<cfg>; the *_multibinary.asm files are assembled with `nasm -DISAL_VERIF -P /verif/asm/verif_prefix.asm` (macros shadowing CPUID/XGETBV) and their local dispatch symbols are globalised with objcopy on the object copies",
        "baseline_off_cmd": "cd /repo && make check -j8",
        "source_commits": plans.HOOK_COMMITS if hasattr(plans, "HOOK_COMMITS") else [],
        "add_only": True,
    },
    "engines": [
        {"name": "pbt-tape (rapidcheck)", "path": "src/common/pbt_engine.cpp", "serves_properties": [c["property_id"] for c in checks],
         "kind_free_text": "rapidcheck generates and shrinks fixed-length choice tapes that each property decodes into structured cases; the same bodies run systematic sweeps, saved replays and libFuzzer inputs"},
        {"name": "libFuzzer + ASan over the same bodies", "path": "src/fuzz/fuzz_engine.cpp", "serves_properties": ["C06"],
         "kind_free_text": "configuration asan: clang -fsanitize=fuzzer,address; byte 0 of an input selects the sub-property, the remaining bytes are the little-endian choice tape; failures are written as the same replay files"},
    ],
    "checks": checks,
    "not_applicable": na,
    "notes": "See DESIGN.md. Known/fixed findings are listed in known_findings.txt.",
}
with open(os.path.join(VERIF, "MANIFEST.json"), "w") as f:
    json.dump(m, f, indent=1)
    f.write("\n")
print("claimed:", [c["property_id"] for c in checks])
