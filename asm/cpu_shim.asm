;; CPUID / XGETBV interception stubs for the verification build.
;; struct verif_cpu_tab { u32 override; u32 l1[4]; u32 l7[4]; u32 xcr0_lo, xcr0_hi;
;;                        u32 n_cpuid, n_xgetbv, xgetbv_without_osxsave; }
default rel
section .data
global verif_cpu_tab:data hidden
align 8
verif_cpu_tab:
	dd 0			; +0  override (0 = answer from the real instructions)
	dd 0,0,0,0		; +4  leaf1 eax,ebx,ecx,edx
	dd 0,0,0,0		; +20 leaf7.0 eax,ebx,ecx,edx
	dd 0,0			; +36 xcr0 lo,hi
	dd 0			; +44 number of cpuid executions
	dd 0			; +48 number of xgetbv executions
	dd 0			; +52 xgetbv executed while leaf1.ecx.OSXSAVE clear

section .text
global verif_cpuid_stub:function hidden
verif_cpuid_stub:
	pushfq
	lock inc dword [verif_cpu_tab+44]
	cmp	dword [verif_cpu_tab], 0
	je	.real
	cmp	eax, 1
	je	.leaf1
	cmp	eax, 7
	jne	.real
	test	ecx, ecx
	jnz	.real
	mov	eax, [verif_cpu_tab+20]
	mov	ebx, [verif_cpu_tab+24]
	mov	ecx, [verif_cpu_tab+28]
	mov	edx, [verif_cpu_tab+32]
	popfq
	ret
.leaf1:
	mov	eax, [verif_cpu_tab+4]
	mov	ebx, [verif_cpu_tab+8]
	mov	ecx, [verif_cpu_tab+12]
	mov	edx, [verif_cpu_tab+16]
	popfq
	ret
.real:
	cpuid
	popfq
	ret

global verif_xgetbv_stub:function hidden
verif_xgetbv_stub:
	pushfq
	lock inc dword [verif_cpu_tab+48]
	cmp	dword [verif_cpu_tab], 0
	je	.real
	test	dword [verif_cpu_tab+12], (1<<27)
	jnz	.ok
	lock inc dword [verif_cpu_tab+52]
.ok:
	mov	eax, [verif_cpu_tab+36]
	mov	edx, [verif_cpu_tab+40]
	popfq
	ret
.real:
	xgetbv
	popfq
	ret

;; accessor so that C code (also outside a shared object) can reach the table
global verif_cpu_tab_ptr:function
verif_cpu_tab_ptr:
	lea	rax, [verif_cpu_tab]
	ret

;; void verif_call_with_regs(void (*fn)(void), const uint64_t in[6], uint64_t out[6])
;; calls a resolver with chosen values in the six integer argument registers and reports what they hold afterwards
global verif_call_with_regs:function
verif_call_with_regs:
	push	rbx
	push	r12
	push	r13
	mov	r12, rdi
	mov	r13, rdx
	mov	rbx, rsi
	mov	rdi, [rbx]
	mov	rsi, [rbx+8]
	mov	rdx, [rbx+16]
	mov	rcx, [rbx+24]
	mov	r8, [rbx+32]
	mov	r9, [rbx+40]
	call	r12
	mov	[r13], rdi
	mov	[r13+8], rsi
	mov	[r13+16], rdx
	mov	[r13+24], rcx
	mov	[r13+32], r8
	mov	[r13+40], r9
	pop	r13
	pop	r12
	pop	rbx
	ret


;; void verif_poison_vregs(unsigned mask)   bit0: YMM usable (AVX), bit1: ZMM/opmask usable (AVX-512F)
;; The vector and mask registers are caller-saved and hold *unspecified* values when a function is entered; a kernel that happens to rely on
;; what its caller left there (a zero register, a clean upper half) works in every test program and fails in the field.  Called right before
;; every guarded library call.
global verif_poison_vregs:function
verif_poison_vregs:
	mov	rax, 0xA5C3E1F00F1E3C5A
	movq	xmm0, rax
	punpcklqdq xmm0, xmm0
	movdqa	xmm1, xmm0
	pslld	xmm1, 1
	movdqa	xmm2, xmm0
	psrld	xmm2, 3
	movdqa	xmm3, xmm1
	movdqa	xmm4, xmm2
	movdqa	xmm5, xmm0
	movdqa	xmm6, xmm1
	movdqa	xmm7, xmm2
	movdqa	xmm8, xmm0
	movdqa	xmm9, xmm1
	movdqa	xmm10, xmm2
	movdqa	xmm11, xmm0
	movdqa	xmm12, xmm1
	movdqa	xmm13, xmm2
	movdqa	xmm14, xmm0
	movdqa	xmm15, xmm1
	test	edi, 1
	jz	.done
%assign i 0
%rep 16
	vinsertf128 ymm %+ i, ymm %+ i, xmm %+ i, 1
%assign i i+1
%endrep
	test	edi, 2
	jz	.done
%assign i 0
%rep 16
	vinserti64x4 zmm %+ i, zmm %+ i, ymm %+ i, 1
%assign i i+1
%endrep
%assign i 16
%rep 16
	vpbroadcastq zmm %+ i, rax
%assign i i+1
%endrep
	mov	eax, 0xA5C3
	kmovw	k1, eax
	kmovw	k2, eax
	kmovw	k3, eax
	kmovw	k4, eax
	kmovw	k5, eax
	kmovw	k6, eax
	kmovw	k7, eax
.done:
	ret

section .note.GNU-stack noalloc noexec nowrite progbits
