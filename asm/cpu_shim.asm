;; CPUID / XGETBV interception stubs for the verification build.
;; struct verif_cpu_tab { u32 override; u32 l1[4]; u32 l7[4]; u32 xcr0_lo, xcr0_hi;
;;                        u32 n_cpuid, n_xgetbv, xgetbv_without_osxsave; }
default rel
section .data
global verif_cpu_tab:data hidden
align 8
verif_cpu_tab:
	dd 0			; +0  override (0 = answer from the real instructions)
	dd 0,0,0,0		; +4  leaf1 eax,ebx,ecx,edx
	dd 0,0,0,0		; +20 leaf7.0 eax,ebx,ecx,edx
	dd 0,0			; +36 xcr0 lo,hi
	dd 0			; +44 number of cpuid executions
	dd 0			; +48 number of xgetbv executions
	dd 0			; +52 xgetbv executed while leaf1.ecx.OSXSAVE clear

section .text
global verif_cpuid_stub:function hidden
verif_cpuid_stub:
	pushfq
	lock inc dword [verif_cpu_tab+44]
	cmp	dword [verif_cpu_tab], 0
	je	.real
	cmp	eax, 1
	je	.leaf1
	cmp	eax, 7
	jne	.real
	test	ecx, ecx
	jnz	.real
	mov	eax, [verif_cpu_tab+20]
	mov	ebx, [verif_cpu_tab+24]
	mov	ecx, [verif_cpu_tab+28]
	mov	edx, [verif_cpu_tab+32]
	popfq
	ret
.leaf1:
	mov	eax, [verif_cpu_tab+4]
	mov	ebx, [verif_cpu_tab+8]
	mov	ecx, [verif_cpu_tab+12]
	mov	edx, [verif_cpu_tab+16]
	popfq
	ret
.real:
	cpuid
	popfq
	ret

global verif_xgetbv_stub:function hidden
verif_xgetbv_stub:
	pushfq
	lock inc dword [verif_cpu_tab+48]
	cmp	dword [verif_cpu_tab], 0
	je	.real
	test	dword [verif_cpu_tab+12], (1<<27)
	jnz	.ok
	lock inc dword [verif_cpu_tab+52]
.ok:
	mov	eax, [verif_cpu_tab+36]
	mov	edx, [verif_cpu_tab+40]
	popfq
	ret
.real:
	xgetbv
	popfq
	ret

;; accessor so that C code (also outside a shared object) can reach the table
global verif_cpu_tab_ptr:function
verif_cpu_tab_ptr:
	lea	rax, [verif_cpu_tab]
	ret

;; void verif_call_with_regs(void (*fn)(void), const uint64_t in[6], uint64_t out[6])
;; calls a resolver with chosen values in the six integer argument registers and reports what they hold afterwards
global verif_call_with_regs:function
verif_call_with_regs:
	push	rbx
	push	r12
	push	r13
	mov	r12, rdi
	mov	r13, rdx
	mov	rbx, rsi
	mov	rdi, [rbx]
	mov	rsi, [rbx+8]
	mov	rdx, [rbx+16]
	mov	rcx, [rbx+24]
	mov	r8, [rbx+32]
	mov	r9, [rbx+40]
	call	r12
	mov	[r13], rdi
	mov	[r13+8], rsi
	mov	[r13+16], rdx
	mov	[r13+24], rcx
	mov	[r13+32], r8
	mov	[r13+40], r9
	pop	r13
	pop	r12
	pop	rbx
	ret

section .note.GNU-stack noalloc noexec nowrite progbits
