;; Pre-included (nasm -P) into every *_multibinary.asm when the verification
;; build is made.  Shadows the CPUID / XGETBV mnemonics with macros that call
;; register-preserving stubs (cpu_shim.asm) so that the *unmodified* resolver
;; code can be run against a simulated processor configuration.
%ifdef ISAL_VERIF
extern verif_cpuid_stub
extern verif_xgetbv_stub
%macro cpuid 0
	call	verif_cpuid_stub
%endmacro
%macro xgetbv 0
	call	verif_xgetbv_stub
%endmacro
%endif
