// RFC 1952 / RFC 1950 header writer and parser written from the RFCs
// (little-endian MTIME/XLEN/HCRC/CRC32/ISIZE, big-endian DICTID/Adler-32).
#pragma once
#include <cstdint>
#include <vector>
#include <string>
#include <zlib.h>

namespace refhdr {

struct Gzip {
	bool text = false;
	uint32_t mtime = 0;
	uint8_t xfl = 0, os = 255;
	bool has_extra = false, has_name = false, has_comment = false, hcrc = false;
	std::vector<uint8_t> extra;
	std::string name, comment; // without the terminating NUL
	uint8_t reserved_flags = 0; // bits 5..7 (must be zero in valid headers)
	uint8_t cm = 8, id1 = 0x1f, id2 = 0x8b;
};

inline std::vector<uint8_t> write_gzip(const Gzip &h, bool corrupt_hcrc = false) {
	std::vector<uint8_t> o;
	uint8_t flg = (h.text ? 1 : 0) | (h.hcrc ? 2 : 0) | (h.has_extra ? 4 : 0) | (h.has_name ? 8 : 0) | (h.has_comment ? 16 : 0) | (uint8_t) (h.reserved_flags << 5);
	o.push_back(h.id1); o.push_back(h.id2); o.push_back(h.cm); o.push_back(flg);
	for (int i = 0; i < 4; i++) o.push_back((uint8_t) (h.mtime >> (8 * i)));
	o.push_back(h.xfl); o.push_back(h.os);
	if (h.has_extra) {
		o.push_back((uint8_t) (h.extra.size() & 0xFF)); o.push_back((uint8_t) (h.extra.size() >> 8));
		o.insert(o.end(), h.extra.begin(), h.extra.end());
	}
	if (h.has_name) { o.insert(o.end(), h.name.begin(), h.name.end()); o.push_back(0); }
	if (h.has_comment) { o.insert(o.end(), h.comment.begin(), h.comment.end()); o.push_back(0); }
	if (h.hcrc) {
		uint32_t c = (uint32_t) crc32(0, o.data(), (uInt) o.size());
		if (corrupt_hcrc) c ^= 0x0101;
		o.push_back((uint8_t) c); o.push_back((uint8_t) (c >> 8));
	}
	return o;
}

struct Zlib {
	int cinfo = 7;   // window = 2^(cinfo+8)
	int flevel = 0;  // 0..3
	bool fdict = false;
	uint32_t dictid = 0;
	int cm = 8;
};
inline std::vector<uint8_t> write_zlib(const Zlib &h, bool corrupt_fcheck = false) {
	std::vector<uint8_t> o;
	uint8_t cmf = (uint8_t) ((h.cinfo << 4) | (h.cm & 15));
	uint8_t flg = (uint8_t) ((h.flevel << 6) | (h.fdict ? 0x20 : 0));
	flg += (uint8_t) (31 - ((cmf << 8) | flg) % 31) % 31;
	if (corrupt_fcheck) flg ^= 1;
	o.push_back(cmf); o.push_back(flg);
	if (h.fdict) for (int i = 3; i >= 0; i--) o.push_back((uint8_t) (h.dictid >> (8 * i))); // most significant byte first (RFC 1950 2.2)
	return o;
}
inline void gzip_trailer(std::vector<uint8_t> &o, const std::vector<uint8_t> &data) {
	uint32_t c = (uint32_t) crc32(0, data.data(), (uInt) data.size()), l = (uint32_t) data.size();
	for (int i = 0; i < 4; i++) o.push_back((uint8_t) (c >> (8 * i)));
	for (int i = 0; i < 4; i++) o.push_back((uint8_t) (l >> (8 * i)));
}
inline void zlib_trailer(std::vector<uint8_t> &o, const std::vector<uint8_t> &data, const uint8_t *dict = nullptr, size_t dict_len = 0) {
	(void) dict; (void) dict_len;
	uint32_t a = (uint32_t) adler32(1, data.data(), (uInt) data.size());
	for (int i = 3; i >= 0; i--) o.push_back((uint8_t) (a >> (8 * i)));
}

// parser (for C19): returns header length, or 0 if more input needed, or -1 invalid
struct Parsed { Gzip g; size_t len = 0; bool hcrc_ok = true; };
inline int parse_gzip(const uint8_t *p, size_t n, Parsed &out) {
	if (n < 10) return 0;
	Gzip &g = out.g;
	g.id1 = p[0]; g.id2 = p[1]; g.cm = p[2];
	if (p[0] != 0x1f || p[1] != 0x8b) return -1;
	if (p[2] != 8) return -2;
	uint8_t flg = p[3];
	g.text = flg & 1; g.hcrc = flg & 2; g.has_extra = flg & 4; g.has_name = flg & 8; g.has_comment = flg & 16; g.reserved_flags = flg >> 5;
	g.mtime = p[4] | p[5] << 8 | p[6] << 16 | (uint32_t) p[7] << 24;
	g.xfl = p[8]; g.os = p[9];
	size_t pos = 10;
	if (g.has_extra) {
		if (n < pos + 2) return 0;
		size_t xl = p[pos] | p[pos + 1] << 8;
		pos += 2;
		if (n < pos + xl) return 0;
		g.extra.assign(p + pos, p + pos + xl);
		pos += xl;
	}
	if (g.has_name) { size_t s = pos; while (pos < n && p[pos]) pos++; if (pos >= n) return 0; g.name.assign((const char *) p + s, pos - s); pos++; }
	if (g.has_comment) { size_t s = pos; while (pos < n && p[pos]) pos++; if (pos >= n) return 0; g.comment.assign((const char *) p + s, pos - s); pos++; }
	if (g.hcrc) {
		if (n < pos + 2) return 0;
		uint32_t c = (uint32_t) crc32(0, p, (uInt) pos) & 0xFFFF;
		out.hcrc_ok = c == (uint32_t) (p[pos] | p[pos + 1] << 8);
		pos += 2;
	}
	out.len = pos;
	return 1;
}

} // namespace refhdr
