// Simulated processor configurations for the *real* resolver code.
// The multibinary objects of the verification build call verif_cpuid_stub /
// verif_xgetbv_stub instead of CPUID / XGETBV (asm/verif_prefix.asm); this
// header fills the table those stubs answer from and re-arms the dispatch
// slots so the next call of an entry point runs its resolver again.
#pragma once
#include <cstdint>
#include <string>
#include <vector>

namespace cpu {

struct Tab {
	uint32_t override_;
	uint32_t l1[4];  // eax ebx ecx edx
	uint32_t l7[4];
	uint32_t xcr0_lo, xcr0_hi;
	uint32_t n_cpuid, n_xgetbv, xgetbv_without_osxsave;
};
extern "C" Tab *verif_cpu_tab_ptr();
extern "C" void verif_call_with_regs(void (*fn)(), const uint64_t in[6], uint64_t out[6]);

struct Slot {
	const char *name;
	void **slot;             // X_dispatched
	void *mbinit;            // X_mbinit
	void (*dispatch_init)(); // X_dispatch_init (preserves all registers)
};
const std::vector<Slot> &slots();

// CPUID.1:ECX
enum : uint32_t { SSE3 = 1u << 0, PCLMUL = 1u << 1, SSSE3 = 1u << 9, FMA = 1u << 12, SSE41 = 1u << 19, SSE42 = 1u << 20, MOVBE = 1u << 22, POPCNT = 1u << 23,
	          AESNI = 1u << 25, XSAVE = 1u << 26, OSXSAVE = 1u << 27, AVX = 1u << 28, F16C = 1u << 29 };
// CPUID.7.0:EBX
enum : uint32_t { BMI1 = 1u << 3, AVX2 = 1u << 5, BMI2 = 1u << 8, AVX512F = 1u << 16, AVX512DQ = 1u << 17, AVX512IFMA = 1u << 21, AVX512CD = 1u << 28,
	          AVX512BW = 1u << 30, AVX512VL = 1u << 31 };
// CPUID.7.0:ECX
enum : uint32_t { VBMI = 1u << 1, VBMI2 = 1u << 6, GFNI = 1u << 8, VAES = 1u << 9, VPCLMULQDQ = 1u << 10, VNNI = 1u << 11, BITALG = 1u << 12, VPOPCNTDQ = 1u << 14 };

struct Config {
	uint32_t l1_eax, l1_ecx, l7_ebx, l7_ecx, xcr0;
};

Config host_config();           // read with the real instructions
void apply(const Config &c);    // answer from c, re-arm every slot
void apply_host();              // back to the real instructions, re-arm every slot
void rearm_all();
bool host_can_run(const Config &c); // every feature c offers is also offered by the host

// named levels (subsets of the host's features)
extern const char *const LEVEL_NAMES[];
extern const int N_LEVELS;
bool level_config(const std::string &name, Config &out); // false if unknown
std::string resolved_name(const Slot &s);
const Slot *find_slot(const std::string &entry);            // nullptr if absent
std::string resolved_name(const std::string &entry);       // "?" if absent                 // symbol currently stored in the slot

} // namespace cpu
