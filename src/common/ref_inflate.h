// Instrumented RFC 1951 decoder written from the RFC (bit-by-bit canonical
// Huffman decoding), independent of ISA-L and of zlib.  Reports block
// structure, code lengths, every match's reach, the exact end bit, and a
// precise rejection reason.  Two modes:
//   strict  - accepts what zlib accepts: complete prefix codes, or the
//             degenerate single-code / empty distance alphabets
//   lenient - additionally accepts incomplete code sets as long as no
//             unassigned code is actually met (never accepts over-subscription)
#pragma once
#include <cstdint>
#include <cstddef>
#include <cstring>
#include <vector>
#include <string>

namespace refinf {

enum Status {
	OK = 0,
	TRUNCATED,        // ran out of input
	E_BLOCKTYPE,      // BTYPE == 3
	E_STORED_LEN,     // LEN != ~NLEN
	E_HDR_COUNTS,     // HLIT > 29 (286) or HDIST > 29 (30)
	E_CODELEN_CODE,   // over-subscribed / incomplete code-length code
	E_REPEAT,         // repeat with no previous length, or repeat running past HLIT+HDIST
	E_NO_EOB,         // no code for symbol 256
	E_LITLEN_CODE,    // over-subscribed / (strict) incomplete literal-length code
	E_DIST_CODE,      // over-subscribed / (strict) incomplete distance code
	E_BAD_SYMBOL,     // unassigned code met, or literal/length symbol 286/287
	E_BAD_DIST_SYM,   // unassigned distance code met, or distance symbol 30/31
	E_DIST_TOO_FAR,   // distance reaches before the start of output (+dictionary)
	E_OUTPUT_LIMIT    // output limit of the caller reached (not an error of the stream)
};
inline const char *status_name(Status s) {
	static const char *N[] = {"OK", "TRUNCATED", "E_BLOCKTYPE", "E_STORED_LEN", "E_HDR_COUNTS", "E_CODELEN_CODE", "E_REPEAT", "E_NO_EOB", "E_LITLEN_CODE", "E_DIST_CODE",
	                          "E_BAD_SYMBOL", "E_BAD_DIST_SYM", "E_DIST_TOO_FAR", "E_OUTPUT_LIMIT"};
	return N[s];
}
// documented ISA-L error class of a single fault (ISAL_INVALID_BLOCK -1, _SYMBOL -2, _LOOKBACK -3), 0 if none, 1 = end of input
inline int isal_class(Status s) {
	switch (s) {
	case OK: return 0;
	case TRUNCATED: return 1;
	case E_BLOCKTYPE: case E_STORED_LEN: case E_HDR_COUNTS: case E_CODELEN_CODE: case E_REPEAT: case E_NO_EOB: case E_LITLEN_CODE: case E_DIST_CODE: return -1;
	case E_BAD_SYMBOL: case E_BAD_DIST_SYM: return -2;
	case E_DIST_TOO_FAR: return -3;
	default: return 99;
	}
}

struct Block {
	int type = 0;
	bool bfinal = false;
	uint64_t start_bit = 0, hdr_end_bit = 0, end_bit = 0;
	size_t out_start = 0, out_end = 0;
	int max_ll_len = 0, max_d_len = 0;   // longest code lengths (dynamic blocks)
	int n_ll_codes = 0, n_d_codes = 0;   // number of non-zero lengths
	uint32_t matches = 0;
	uint32_t max_dist = 0;
	int64_t min_src = INT64_MAX;         // smallest absolute output position any match of this block reads (negative: inside the dictionary)
	bool repeat_crosses_tables = false;  // a 16/17/18 run spans the lit/len -> distance boundary
	bool incomplete_code = false;        // block used an incomplete (lenient-only) code set
	uint32_t stored_len = 0;
};

struct Options {
	bool lenient = false;
	const uint8_t *dict = nullptr;
	size_t dict_len = 0;
	size_t max_out = (size_t) 1 << 30;
	bool keep_lens = false;
};

struct Result {
	Status st = OK;
	std::vector<uint8_t> out;
	uint64_t end_bit = 0;             // first bit after the final block (valid when st == OK)
	uint64_t err_bit = 0;             // bit position where decoding stopped
	std::vector<Block> blocks;
	uint32_t max_dist = 0, max_len = 0;
	size_t nmatches = 0, nliterals = 0;
	bool overlap_match = false;       // dist < len
	bool at_block_boundary = false;   // TRUNCATED exactly where a new block header would start (e.g. after a sync flush)
	uint64_t last_block_end_bit = 0;
	bool gray = false;                // accepted only because of lenient mode
	std::vector<uint8_t> ll_lens, d_lens; // code lengths of the last dynamic block (keep_lens)
	size_t end_byte() const { return (size_t) ((end_bit + 7) / 8); }
};

struct Bits {
	const uint8_t *p;
	size_t n;
	uint64_t pos = 0; // bit position
	bool need(unsigned k) const { return pos + k <= (uint64_t) n * 8; }
	unsigned get(unsigned k) { // caller checked need()
		unsigned v = 0;
		for (unsigned i = 0; i < k; i++, pos++) v |= (unsigned) ((p[pos >> 3] >> (pos & 7)) & 1) << i;
		return v;
	}
};

struct Huff {
	uint16_t count[16];
	uint16_t symbol[320];
	int nsyms = 0;
	int left = 0;  // >0 incomplete, <0 over-subscribed, 0 complete
	int maxlen = 0, ncodes = 0;
	void build(const uint8_t *lens, int n) {
		memset(count, 0, sizeof count);
		for (int i = 0; i < n; i++) count[lens[i]]++;
		ncodes = n - count[0];
		maxlen = 0;
		for (int l = 1; l <= 15; l++) if (count[l]) maxlen = l;
		left = 1;
		for (int l = 1; l <= 15; l++) { left <<= 1; left -= count[l]; if (left < 0) break; }
		uint16_t offs[16];
		offs[1] = 0;
		for (int l = 1; l < 15; l++) offs[l + 1] = offs[l] + count[l];
		for (int i = 0; i < n; i++) if (lens[i]) symbol[offs[lens[i]]++] = (uint16_t) i;
		nsyms = n;
	}
	// returns symbol, -1 = unassigned code, -2 = out of input
	int decode(Bits &b) const {
		int code = 0, first = 0, index = 0;
		for (int l = 1; l <= 15; l++) {
			if (!b.need(1)) return -2;
			code |= (int) b.get(1);
			int cnt = count[l];
			if (code - cnt < first) return symbol[index + (code - first)];
			index += cnt;
			first += cnt;
			first <<= 1;
			code <<= 1;
		}
		return -1;
	}
};

static const uint16_t LBASE[29] = {3, 4, 5, 6, 7, 8, 9, 10, 11, 13, 15, 17, 19, 23, 27, 31, 35, 43, 51, 59, 67, 83, 99, 115, 131, 163, 195, 227, 258};
static const uint8_t LEXT[29] = {0, 0, 0, 0, 0, 0, 0, 0, 1, 1, 1, 1, 2, 2, 2, 2, 3, 3, 3, 3, 4, 4, 4, 4, 5, 5, 5, 5, 0};
static const uint16_t DBASE[30] = {1, 2, 3, 4, 5, 7, 9, 13, 17, 25, 33, 49, 65, 97, 129, 193, 257, 385, 513, 769, 1025, 1537, 2049, 3073, 4097, 6145, 8193, 12289, 16385, 24577};
static const uint8_t DEXT[30] = {0, 0, 0, 0, 1, 1, 2, 2, 3, 3, 4, 4, 5, 5, 6, 6, 7, 7, 8, 8, 9, 9, 10, 10, 11, 11, 12, 12, 13, 13};
static const uint8_t CLORDER[19] = {16, 17, 18, 0, 8, 7, 9, 6, 10, 5, 11, 4, 12, 3, 13, 2, 14, 1, 15};

inline Result inflate(const uint8_t *in, size_t n, const Options &o = Options()) {
	Result r;
	Bits b{in, n};
	auto fail = [&](Status s) { r.st = s; r.err_bit = b.pos; return r; };
	bool last = false;
	while (!last) {
		Block blk;
		blk.start_bit = b.pos;
		blk.out_start = r.out.size();
		if (!b.need(3)) {
			// at a block boundary iff nothing but (at most 7) zero padding bits remain... we only flag the exact case: no bits left in a byte-aligned stream or < 3 bits left
			r.at_block_boundary = true;
			r.last_block_end_bit = blk.start_bit;
			return fail(TRUNCATED);
		}
		last = b.get(1);
		blk.bfinal = last;
		blk.type = (int) b.get(2);
		if (blk.type == 3) return fail(E_BLOCKTYPE);
		if (blk.type == 0) {
			b.pos = (b.pos + 7) & ~7ull;
			if (!b.need(32)) return fail(TRUNCATED);
			unsigned len = b.get(16), nlen = b.get(16);
			if (len != (~nlen & 0xFFFF)) return fail(E_STORED_LEN);
			blk.hdr_end_bit = b.pos;
			blk.stored_len = len;
			if (!b.need(len * 8)) {
				// deliver what is there (a streaming decoder would), then report truncation
				size_t avail = (size_t) (((uint64_t) n * 8 - b.pos) / 8);
				if (r.out.size() + avail > o.max_out) return fail(E_OUTPUT_LIMIT);
				r.out.insert(r.out.end(), in + b.pos / 8, in + b.pos / 8 + avail);
				b.pos += avail * 8;
				return fail(TRUNCATED);
			}
			if (r.out.size() + len > o.max_out) return fail(E_OUTPUT_LIMIT);
			r.out.insert(r.out.end(), in + b.pos / 8, in + b.pos / 8 + len);
			b.pos += (uint64_t) len * 8;
		} else {
			Huff ll, dd;
			uint8_t lens[320];
			if (blk.type == 1) {
				int i = 0;
				for (; i < 144; i++) lens[i] = 8;
				for (; i < 256; i++) lens[i] = 9;
				for (; i < 280; i++) lens[i] = 7;
				for (; i < 288; i++) lens[i] = 8;
				ll.build(lens, 288);
				for (i = 0; i < 32; i++) lens[i] = 5;
				dd.build(lens, 32); // 32 codes of 5 bits; symbols 30/31 are rejected when met (RFC 1951 3.2.6)
				blk.max_ll_len = 9; blk.max_d_len = 5;
				blk.hdr_end_bit = b.pos;
			} else {
				if (!b.need(14)) return fail(TRUNCATED);
				int hlit = (int) b.get(5) + 257, hdist = (int) b.get(5) + 1, hclen = (int) b.get(4) + 4;
				if (hlit > 286 || hdist > 30) return fail(E_HDR_COUNTS);
				uint8_t cl[19];
				memset(cl, 0, sizeof cl);
				for (int i = 0; i < hclen; i++) {
					if (!b.need(3)) return fail(TRUNCATED);
					cl[CLORDER[i]] = (uint8_t) b.get(3);
				}
				Huff ch;
				ch.build(cl, 19);
				if (ch.left < 0) return fail(E_CODELEN_CODE);
				if (ch.left > 0) {
					// zlib rejects every incomplete code-length code; lenient mode tolerates it until an unassigned code is met
					if (!o.lenient) return fail(E_CODELEN_CODE);
					blk.incomplete_code = true;
				}
				int idx = 0;
				while (idx < hlit + hdist) {
					int sym = ch.decode(b);
					if (sym == -2) return fail(TRUNCATED);
					if (sym < 0) return fail(E_CODELEN_CODE);
					if (sym < 16) lens[idx++] = (uint8_t) sym;
					else {
						int rep, val = 0;
						if (sym == 16) {
							if (idx == 0) return fail(E_REPEAT);
							val = lens[idx - 1];
							if (!b.need(2)) return fail(TRUNCATED);
							rep = 3 + (int) b.get(2);
						} else if (sym == 17) {
							if (!b.need(3)) return fail(TRUNCATED);
							rep = 3 + (int) b.get(3);
						} else {
							if (!b.need(7)) return fail(TRUNCATED);
							rep = 11 + (int) b.get(7);
						}
						if (idx + rep > hlit + hdist) return fail(E_REPEAT);
						if (idx < hlit && idx + rep > hlit) blk.repeat_crosses_tables = true;
						while (rep--) lens[idx++] = (uint8_t) val;
					}
				}
				if (lens[256] == 0) return fail(E_NO_EOB);
				ll.build(lens, hlit);
				if (ll.left < 0) return fail(E_LITLEN_CODE);
				if (ll.left > 0 && !(ll.ncodes == 1 && ll.maxlen == 1)) {
					if (!o.lenient) return fail(E_LITLEN_CODE);
					blk.incomplete_code = true;
				}
				dd.build(lens + hlit, hdist);
				if (dd.left < 0) return fail(E_DIST_CODE);
				if (dd.left > 0 && !(dd.ncodes == 0 || (dd.ncodes == 1 && dd.maxlen == 1))) {
					if (!o.lenient) return fail(E_DIST_CODE);
					blk.incomplete_code = true;
				}
				blk.max_ll_len = ll.maxlen; blk.max_d_len = dd.maxlen;
				blk.n_ll_codes = ll.ncodes; blk.n_d_codes = dd.ncodes;
				blk.hdr_end_bit = b.pos;
				if (o.keep_lens) { r.ll_lens.assign(lens, lens + hlit); r.d_lens.assign(lens + hlit, lens + hlit + hdist); }
			}
			if (blk.incomplete_code) r.gray = true;
			for (;;) {
				int sym = ll.decode(b);
				if (sym == -2) return fail(TRUNCATED);
				if (sym < 0) return fail(E_BAD_SYMBOL);
				if (sym < 256) {
					if (r.out.size() + 1 > o.max_out) return fail(E_OUTPUT_LIMIT);
					r.out.push_back((uint8_t) sym);
					r.nliterals++;
				} else if (sym == 256) break;
				else {
					sym -= 257;
					if (sym >= 29) return fail(E_BAD_SYMBOL);
					if (!b.need(LEXT[sym])) return fail(TRUNCATED);
					unsigned len = LBASE[sym] + b.get(LEXT[sym]);
					int ds = dd.decode(b);
					if (ds == -2) return fail(TRUNCATED);
					if (ds < 0 || ds >= 30) return fail(E_BAD_DIST_SYM);
					if (!b.need(DEXT[ds])) return fail(TRUNCATED);
					unsigned dist = DBASE[ds] + b.get(DEXT[ds]);
					if (dist > r.out.size() + o.dict_len) return fail(E_DIST_TOO_FAR);
					if (r.out.size() + len > o.max_out) return fail(E_OUTPUT_LIMIT);
					int64_t src = (int64_t) r.out.size() - (int64_t) dist;
					if (src < blk.min_src) blk.min_src = src;
					for (unsigned k = 0; k < len; k++) {
						int64_t s = (int64_t) r.out.size() - (int64_t) dist;
						r.out.push_back(s >= 0 ? r.out[(size_t) s] : o.dict[o.dict_len + s]);
					}
					blk.matches++;
					r.nmatches++;
					if (dist > blk.max_dist) blk.max_dist = dist;
					if (dist > r.max_dist) r.max_dist = dist;
					if (len > r.max_len) r.max_len = len;
					if (dist < len) r.overlap_match = true;
				}
			}
		}
		blk.end_bit = b.pos;
		blk.out_end = r.out.size();
		r.last_block_end_bit = b.pos;
		r.blocks.push_back(blk);
	}
	r.st = OK;
	r.end_bit = b.pos;
	r.err_bit = b.pos;
	return r;
}

} // namespace refinf
