// Registry of the RAID kernels
#pragma once
#include "kern.h"
#include "ref_gf.h"
extern "C" {
#include "raid.h"
int xor_gen_avx512(int, int, void **);
int pq_gen_avx2(int, int, void **);
int pq_gen_avx512(int, int, void **);
}
namespace raidv {
typedef int (*rfn)(int, int, void **);
struct Var { const char *name; rfn fn; const char *level; size_t align; size_t lenmult; };
static const Var XG[] = {{"xor_gen_base", xor_gen_base, "base", 32, 1}, {"xor_gen_sse", xor_gen_sse, "sse", 16, 1}, {"xor_gen_avx", xor_gen_avx, "avx", 32, 1}, {"xor_gen_avx512", xor_gen_avx512, "avx512", 32, 1}};
static const Var PG[] = {{"pq_gen_base", pq_gen_base, "base", 32, 32}, {"pq_gen_sse", pq_gen_sse, "sse", 16, 16}, {"pq_gen_avx", pq_gen_avx, "avx", 32, 16}, {"pq_gen_avx2", pq_gen_avx2, "avx2", 32, 32}, {"pq_gen_avx512", pq_gen_avx512, "avx512", 32, 32}};
static const Var XC[] = {{"xor_check_base", xor_check_base, "base", 16, 1}, {"xor_check_sse", xor_check_sse, "sse", 16, 1}};
static const Var PC[] = {{"pq_check_base", pq_check_base, "base", 16, 16}, {"pq_check_sse", pq_check_sse, "sse", 16, 16}};
static const Var DISP[] = {{"xor_gen", xor_gen, nullptr, 32, 1}, {"pq_gen", pq_gen, nullptr, 32, 32}, {"xor_check", xor_check, nullptr, 16, 1}, {"pq_check", pq_check, nullptr, 16, 16}};
enum Op { XOR_GEN, PQ_GEN, XOR_CHECK, PQ_CHECK };

} // namespace raidv
