// Builders of valid wrapped streams shared by C02, C06, C07: deflate grammar generator, zlib and ISA-L as encoders,
// raw / gzip (optional FEXTRA, FNAME, FCOMMENT, FHCRC) / zlib wrappers.  Every stream is cross-checked by the reference
// decoder and zlib before it is used.
#pragma once
#include "igzcheck.h"
#include "datagen.h"
#include "deflate_gen.h"
#include "ref_hdr.h"

namespace streams {
using namespace pbt;

struct Built {
	std::vector<uint8_t> stream;  // wrapper header + deflate + trailer
	std::vector<uint8_t> data;
	size_t hdr = 0, defl = 0, trl = 0;
	uint32_t max_dist = 0;
	std::set<std::string> labels;
	std::string src;
	int wrapper = 0; // 0 raw 1 gzip 2 zlib
	int gz_optional = 0;
};

inline void gen_gzip_hdr(Tape &t, refhdr::Gzip &g, int &nopt) {
	g.text = t.coin();
	g.mtime = t.bits32();
	g.xfl = (uint8_t) t.range(0, 255);
	g.os = (uint8_t) t.range(0, 255);
	uint64_t seed = t.bits64();
	nopt = 0;
	if (t.coin()) { g.has_extra = true; size_t n = t.range(0, 3) == 0 ? (size_t) t.range(0, 1200) : (size_t) t.range(0, 40); for (size_t i = 0; i < n; i++) g.extra.push_back((uint8_t) (mix64(seed + i) >> 11)); nopt++; }
	if (t.coin()) { g.has_name = true; size_t n = (size_t) t.range(0, 30); for (size_t i = 0; i < n; i++) g.name.push_back((char) (1 + mix64(seed * 3 + i) % 255)); nopt++; }
	if (t.coin()) { g.has_comment = true; size_t n = (size_t) t.range(0, 30); for (size_t i = 0; i < n; i++) g.comment.push_back((char) (1 + mix64(seed * 5 + i) % 255)); nopt++; }
	if (t.coin()) { g.hcrc = true; nopt++; }
}

inline void build(Tape &t, Built &b, size_t cap = 150000, bool small_only = false, int force_src = -1, int force_level = -1) {
	int src = (int) t.pick<uint32_t>({0, 0, 1, 2, 0});
	if (force_src >= 0) src = force_src;
	std::vector<uint8_t> defl;
	if (src == 0) {
		dgen::Params p;
		p.allow_big = !small_only && t.range(0, 3) != 0;
		if (small_only) p.soft_max_out = cap;
		p.max_dist = ISAL_DEF_HIST_SIZE; // the decoder supports the full 32 KiB window in every build configuration (IGZIP_HIST_SIZE only limits the compressor)
		dgen::Stream s;
		dgen::generate(t, p, s);
		defl = s.bytes; b.data = s.data; b.labels = s.labels; b.src = "grammar";
	} else {
		std::vector<dg::Seg> segs;
		if (small_only) { int n = (int) t.range(1, 2); for (int i = 0; i < n; i++) segs.push_back(dg::Seg{(int) t.range(0, 8), (size_t) t.range(0, cap / 2), t.bits64(), (size_t) t.range(1, 40), (size_t) t.range(1, 60)}); }
		else dg::gen(t, segs, cap);
		dg::expand(segs, b.data);
		if (src == 1) {
			igz::ZDefOpts zo;
			zo.level = (int) t.range(0, 9);
			zo.strategy = (int) t.pick<uint32_t>({Z_DEFAULT_STRATEGY, Z_FILTERED, Z_HUFFMAN_ONLY, Z_RLE, Z_FIXED});
			zo.wbits = -(int) t.range(9, 15);
			zo.memlevel = (int) t.range(1, 9);
			int nf = (int) t.range(0, 3);
			for (int i = 0; i < nf; i++) zo.flushes.push_back({(size_t) t.spread(0, b.data.size()), (int) t.pick<uint32_t>({Z_SYNC_FLUSH, Z_FULL_FLUSH, Z_BLOCK, Z_PARTIAL_FLUSH})});
			std::sort(zo.flushes.begin(), zo.flushes.end());
			defl = igz::zlib_deflate(b.data.data(), b.data.size(), zo);
			if (defl.empty()) throw OracleBug("zlib deflate failed");
			b.src = fmt("zlib(level %d,strategy %d,wbits %d,mem %d,%d flushes)", zo.level, zo.strategy, zo.wbits, zo.memlevel, nf);
		} else {
			igz::DefOpts o;
			o.level = (int) t.range(0, 3);
			if (force_level >= 0) o.level = force_level;
			o.stateless = true;
			o.lbuf_size = igz::lvl_buf_size(o.level, 3);
			igz::Deflater d(o);
			igz::CallInfo ci = d.call(b.data.data(), b.data.size(), b.data.size() + b.data.size() / 8 + 4096, NO_FLUSH, true);
			if (ci.faulted || ci.rc != COMP_OK) throw Skip("isa-l encoder failed (judged by C01)");
			defl = d.out;
			b.src = fmt("isal(level %d)", o.level);
		}
	}
	// the generator's own claim is cross-checked: strict reference decode must reproduce the data, zlib must agree
	refinf::Result r = refinf::inflate(defl.data(), defl.size());
	if (r.st != refinf::OK || r.out != b.data) throw OracleBug(fmt("generated stream (%s) is not decoded to the constructed data by the reference decoder: %s", b.src.c_str(), refinf::status_name(r.st)));
	igz::ZOut z = igz::zlib_inflate(defl.data(), defl.size(), -15, b.data.size() + 16);
	if (z.rc != Z_STREAM_END || z.out != b.data) throw OracleBug(fmt("zlib and the reference decoder disagree on a strictly valid stream (%s): zlib rc %d %s", b.src.c_str(), z.rc, z.msg.c_str()));
	b.max_dist = r.max_dist;
	size_t true_end = r.end_byte();
	defl.resize(true_end);
	for (auto &blk : r.blocks) {
		if (blk.max_ll_len >= 13 && blk.type == 2) b.labels.insert("litlen-code>=13bits");
		if (blk.max_d_len >= 11 && blk.type == 2) b.labels.insert("dist-code>=11bits");
	}
	if (r.nmatches) b.labels.insert("has-match");
	if (r.blocks.size() >= 3) b.labels.insert("blocks>=3");
	if (r.overlap_match) b.labels.insert("overlap");
	// wrapper
	b.wrapper = (int) t.range(0, 2);
	if (b.wrapper == 1) {
		refhdr::Gzip g;
		gen_gzip_hdr(t, g, b.gz_optional);
		b.stream = refhdr::write_gzip(g);
		b.hdr = b.stream.size();
		b.stream.insert(b.stream.end(), defl.begin(), defl.end());
		refhdr::gzip_trailer(b.stream, b.data);
		b.trl = 8;
	} else if (b.wrapper == 2) {
		refhdr::Zlib zh;
		int need = 8;
		while ((1u << need) < b.max_dist) need++;
		zh.cinfo = (int) t.range(need - 8, 7);
		zh.flevel = (int) t.range(0, 3);
		b.stream = refhdr::write_zlib(zh);
		b.hdr = 2;
		b.stream.insert(b.stream.end(), defl.begin(), defl.end());
		refhdr::zlib_trailer(b.stream, b.data);
		b.trl = 4;
	} else b.stream = defl;
	b.defl = defl.size();
}


} // namespace streams
