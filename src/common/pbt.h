// Property-based testing glue shared by every harness.
//
// A *case* is decoded from a "tape" (fixed-length vector of 32-bit choices).
// The tape is produced by rapidcheck generators (random search + shrinking),
// by systematic sweeps (enumerated tapes), by replay files, or by libFuzzer
// bytes.  One function `void body(Tape&, Ctx&)` therefore serves generation,
// shrinking, sweeps, regression replay and coverage-guided fuzzing, and every
// random choice a property makes flows through the library's generator.
#pragma once
#include <cstdint>
#include <cstdio>
#include <cstdlib>
#include <cstring>
#include <cstdarg>
#include <map>
#include <set>
#include <string>
#include <vector>
#include <initializer_list>
#include <stdexcept>
#include <unordered_set>

namespace pbt {

inline uint64_t mix64(uint64_t x) {
	x += 0x9E3779B97F4A7C15ull;
	x = (x ^ (x >> 30)) * 0xBF58476D1CE4E5B9ull;
	x = (x ^ (x >> 27)) * 0x94D049BB133111EBull;
	return x ^ (x >> 31);
}

struct Tape {
	const uint32_t *v;
	size_t n, pos;
	Tape(const std::vector<uint32_t> &t) : v(t.data()), n(t.size()), pos(0) {}
	Tape(const uint32_t *p, size_t cnt) : v(p), n(cnt), pos(0) {}
	size_t over = 0; // reads past the end of the tape (answered with 0); reported as a label so a too-short tape is visible
	uint32_t raw() { if (pos < n) return v[pos++]; over++; return 0; }
	// inclusive range; tape value 0 -> lo (the "simplest" choice)
	uint64_t range(uint64_t lo, uint64_t hi) {
		uint32_t r = raw();
		if (hi <= lo) return lo;
		uint64_t span = hi - lo + 1;
		if (span > 0xFFFFFFFFull) { // need more entropy than one cell
			uint64_t r2 = raw();
			return lo + (((uint64_t) r2 << 32) | r) % span;
		}
		return lo + (r % span);
	}
	// like range but spreads small tape values over the whole interval (0 still -> lo)
	uint64_t spread(uint64_t lo, uint64_t hi) {
		uint32_t r = raw();
		if (hi <= lo) return lo;
		if (r == 0) return lo;
		return lo + mix64(r) % (hi - lo + 1);
	}
	bool coin() { return raw() & 1; }
	// true with probability num/den (0 -> false)
	bool chance(uint32_t num, uint32_t den) { uint32_t r = raw(); return r != 0 && (mix64(r) % den) < num; }
	uint64_t bits64() { uint32_t r = raw(); return r == 0 ? 0 : mix64(r); }
	uint32_t bits32() { return (uint32_t) bits64(); }
	template <typename T> T pick(std::initializer_list<T> l) {
		size_t i = raw() % l.size();
		return *(l.begin() + i);
	}
	template <typename T> const T &pickv(const std::vector<T> &l) { return l[raw() % l.size()]; }
};

struct Violation : std::exception {
	std::string key; // signature used by known_findings matching
	std::string msg;
	Violation(std::string k, std::string m) : key(std::move(k)), msg(std::move(m)) {}
	const char *what() const noexcept override { return msg.c_str(); }
};
struct Skip : std::exception { // case not applicable (counted, never a failure)
	std::string why;
	Skip(std::string w) : why(std::move(w)) {}
};
// harness/oracle self-inconsistency: aborts the run as BROKEN, never a VIOLATION
struct OracleBug : std::exception {
	std::string msg;
	OracleBug(std::string m) : msg(std::move(m)) {}
	const char *what() const noexcept override { return msg.c_str(); }
};

std::string fmt(const char *f, ...) __attribute__((format(printf, 1, 2)));

// per-evaluation context handed to the body
struct Ctx {
	bool nontrivial = false;
	uint64_t fp = 0;          // fingerprint of the decoded case (for distinct counting)
	std::string sample;       // JSON object text describing the decoded case
	std::vector<std::string> labels;
	bool want_sample = false; // body may skip building `sample` when false
	void label(const std::string &l) { labels.push_back(l); }
	void fpmix(uint64_t x) { fp = mix64(fp ^ mix64(x)); }
};

typedef void (*BodyFn)(Tape &, Ctx &);
struct SweepSink;
typedef void (*SweepFn)(SweepSink &);

struct Sub {
	const char *name;
	BodyFn body;
	int tape_len;
	double weight;       // share of the random-case budget
	SweepFn sweep;       // optional systematic enumerator (calls sink.emit(tape))
	const char *rule;    // non-triviality rule text for the evidence
};

struct SweepSink {
	// emit returns false when the run must stop (violation found)
	virtual bool emit(const std::vector<uint32_t> &tape) = 0;
	virtual bool thorough() const = 0;
	virtual ~SweepSink() {}
};

#define PBT_CHECK(cond, key, ...) do { if (!(cond)) throw ::pbt::Violation((key), ::pbt::fmt(__VA_ARGS__)); } while (0)

// entry point implemented in pbt_engine.cpp
int pbt_main(int argc, char **argv, const char *property_id, const std::vector<Sub> &subs);

// options visible to bodies
struct Options {
	bool thorough = false;
	uint64_t seed = 0;
	int worker = 0, nworkers = 1;
	std::string cfg = "native";
	std::set<std::string> known; // known-finding keys (excluded from verdict, counted)
	std::set<std::string> only;  // restrict to these sub-properties (empty = all)
	double scale = 1.0;          // budget multiplier
};
extern Options opt;

// JSON helpers
std::string jstr(const std::string &s);
std::string jhex(const uint8_t *p, size_t n, size_t maxn = 48);

} // namespace pbt
