#include "cpu.h"
#include "guard.h"
#include <cpuid.h>
#include <cstring>

extern "C" {
#define SLOT(x) extern void *x##_dispatched; extern void x##_mbinit(); extern void x##_dispatch_init();
#include "dispatch_slots.inc"
#undef SLOT
}

namespace cpu {

const std::vector<Slot> &slots() {
	static std::vector<Slot> v = {
#define SLOT(x) {#x, &x##_dispatched, (void *) &x##_mbinit, &x##_dispatch_init},
#include "dispatch_slots.inc"
#undef SLOT
	};
	return v;
}

Config host_config() {
	Config c;
	unsigned a, b, cc, d;
	__cpuid(1, a, b, cc, d);
	c.l1_eax = a;
	c.l1_ecx = cc;
	__cpuid_count(7, 0, a, b, cc, d);
	c.l7_ebx = b;
	c.l7_ecx = cc;
	uint32_t lo = 0, hi = 0;
	if (c.l1_ecx & OSXSAVE) __asm__ volatile("xgetbv" : "=a"(lo), "=d"(hi) : "c"(0));
	c.xcr0 = lo;
	return c;
}

void rearm_all() {
	for (auto &s : slots()) *s.slot = s.mbinit;
}

void apply(const Config &c) {
	Tab *t = verif_cpu_tab_ptr();
	unsigned a, b, cc, d;
	__cpuid(1, a, b, cc, d);
	t->l1[0] = c.l1_eax; t->l1[1] = b; t->l1[2] = c.l1_ecx; t->l1[3] = d;
	__cpuid_count(7, 0, a, b, cc, d);
	t->l7[0] = a; t->l7[1] = c.l7_ebx; t->l7[2] = c.l7_ecx; t->l7[3] = d;
	t->xcr0_lo = c.xcr0; t->xcr0_hi = 0;
	t->override_ = 1;
	rearm_all();
}

void apply_host() {
	verif_cpu_tab_ptr()->override_ = 0;
	rearm_all();
}

bool host_can_run(const Config &c) {
	Config h = host_config();
	return (c.l1_ecx & ~h.l1_ecx) == 0 && (c.l7_ebx & ~h.l7_ebx) == 0 && (c.l7_ecx & ~h.l7_ecx) == 0 && (c.xcr0 & ~h.xcr0) == 0;
}

const char *const LEVEL_NAMES[] = {"base", "sse", "sse_noclmul", "avoton", "avx", "avx_os_off", "avx2", "avx2_g2", "avx512", "avx512_os_off", "avx512_g2", "host"};
const int N_LEVELS = sizeof(LEVEL_NAMES) / sizeof(LEVEL_NAMES[0]);

bool level_config(const std::string &n, Config &o) {
	Config h = host_config();
	const uint32_t L1_SSE = SSE3 | SSSE3 | SSE41 | SSE42 | POPCNT | PCLMUL | AESNI;
	const uint32_t L1_AVX = AVX | OSXSAVE | XSAVE;
	const uint32_t L1_AVX2 = FMA | MOVBE | F16C;
	const uint32_t L1_ALL = L1_SSE | L1_AVX | L1_AVX2;
	const uint32_t L7B_AVX2 = AVX2 | BMI1 | BMI2;
	const uint32_t L7B_512 = AVX512F | AVX512DQ | AVX512CD | AVX512BW | AVX512VL | AVX512IFMA;
	const uint32_t L7C_G2A = GFNI | VAES | VPCLMULQDQ;
	const uint32_t L7C_G2 = L7C_G2A | VBMI | VBMI2 | VNNI | BITALG | VPOPCNTDQ;
	Config c;
	c.l1_eax = 0x000306A9; // a generic big-core signature (not Avoton)
	c.l1_ecx = h.l1_ecx & ~L1_ALL;
	c.l7_ebx = h.l7_ebx & ~(L7B_AVX2 | L7B_512);
	c.l7_ecx = h.l7_ecx & ~L7C_G2;
	c.xcr0 = 0;
	auto add1 = [&](uint32_t m) { c.l1_ecx |= h.l1_ecx & m; };
	auto add7b = [&](uint32_t m) { c.l7_ebx |= h.l7_ebx & m; };
	auto add7c = [&](uint32_t m) { c.l7_ecx |= h.l7_ecx & m; };
	if (n == "host") { o = h; return true; }
	if (n == "base") { o = c; return true; }
	add1(L1_SSE);
	if (n == "sse") { o = c; return true; }
	if (n == "sse_noclmul") { c.l1_ecx &= ~(PCLMUL | AESNI); o = c; return true; }
	if (n == "avoton") { c.l1_eax = 0x000406D8; o = c; return true; }
	add1(L1_AVX);
	c.xcr0 = 0x7;
	if (n == "avx") { o = c; return true; }
	if (n == "avx_os_off") { c.xcr0 = 0x3; o = c; return true; }
	add1(L1_AVX2);
	add7b(L7B_AVX2);
	if (n == "avx2") { o = c; return true; }
	if (n == "avx2_g2") { add7c(L7C_G2A); o = c; return true; }
	add7b(L7B_512);
	c.xcr0 = 0xE7;
	if (n == "avx512") { o = c; return true; }
	if (n == "avx512_os_off") { c.xcr0 = 0x7; o = c; return true; }
	add7c(L7C_G2);
	if (n == "avx512_g2") { o = c; return true; }
	return false;
}

std::string resolved_name(const Slot &s) {
	return guard::symbolize(*s.slot);
}

const Slot *find_slot(const std::string &e) {
	for (auto &s : slots()) if (e == s.name) return &s;
	return nullptr;
}
std::string resolved_name(const std::string &e) {
	const Slot *s = find_slot(e);
	return s ? resolved_name(*s) : std::string("?");
}

} // namespace cpu
