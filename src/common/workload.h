// A cross-unit workload whose *observable results* (decoded data, parity,
// checksums, return codes - never compressed bytes) are folded into a digest.
// Used by C16 ("whatever implementation is selected ... results are
// identical") and C15 (threads / determinism).  Internal round trips are
// checked against independent references as it goes.
#pragma once
#include "pbt.h"
#include "ref_gf.h"
#include "ref_crc.h"
#include <zlib.h>
#include <vector>
#include <string>
extern "C" {
#include "igzip_lib.h"
#include "erasure_code.h"
#include "raid.h"
#include "crc.h"
#include "crc64.h"
#include "mem_routines.h"
uint32_t adler32_base(uint32_t adler32, uint8_t *start, uint64_t length); // igzip/adler32_base.c, exported, no public prototype
}

namespace workload {

struct Digest {
	uint64_t h = 0x1234;
	void add(uint64_t x) { h = pbt::mix64(h ^ pbt::mix64(x)); }
	void add(const uint8_t *p, size_t n) { for (size_t i = 0; i < n; i++) h = (h ^ p[i]) * 0x100000001B3ull; add(n); }
};

inline void make_data(std::vector<uint8_t> &d, size_t n, uint64_t seed) {
	d.resize(n);
	for (size_t i = 0; i < n; i++) {
		uint64_t r = pbt::mix64(seed + (i >> 4));
		d[i] = (i & 64) ? (uint8_t) ("the quick brown fox "[(i + seed) % 20]) : (uint8_t) (r >> ((i & 7) * 8) & ((i & 256) ? 0xFF : 0x0F));
	}
	// long-range repeat
	for (size_t i = n / 2; i + 300 < n && i < n / 2 + 300; i++) d[i] = d[i - n / 3];
}

inline bool zlib_raw_inflate(const uint8_t *in, size_t n, int wbits, std::vector<uint8_t> &out, size_t expect) {
	z_stream z;
	memset(&z, 0, sizeof z);
	if (inflateInit2(&z, wbits) != Z_OK) return false;
	out.assign(expect + 64, 0);
	z.next_in = (Bytef *) in; z.avail_in = (uInt) n;
	z.next_out = out.data(); z.avail_out = (uInt) out.size();
	int rc = inflate(&z, Z_FINISH);
	size_t got = z.total_out;
	bool all = z.avail_in == 0;
	inflateEnd(&z);
	out.resize(got);
	return rc == Z_STREAM_END && all;
}

// C15 only: also fold the compressed bytes of the dictionary jobs into the digest (the same implementation must give the same bytes cold or warm,
// serial or threaded); C16 compares different implementations and must leave this off
static bool g_with_bytes = false;
// C15 only: also run the exported portable C kernels (reentrancy of the code that non-SIMD CPUs and assembly-less builds execute)
static bool g_with_base = false;

// returns a failure description or "" ; digest receives the observable results
inline std::string run(uint64_t seed, Digest &dg, bool light = false) {
	char msg[512];
#define WFAIL(...) do { snprintf(msg, sizeof msg, __VA_ARGS__); return std::string(msg); } while (0)
	std::vector<uint8_t> data;
	size_t n = light ? 3000 : 24000;
	make_data(data, n + 64, seed);
	uint8_t *d = data.data();
	// --- CRC / Adler
	static const size_t LENS[] = {0, 1, 15, 16, 77, 255, 256, 1500};
	for (size_t len : LENS) {
		uint64_t v;
		v = crc16_t10dif(0x1234, d, len); if (v != refcrc::fast(refcrc::T10DIF).run(0x1234, d, len)) WFAIL("crc16_t10dif len=%zu", len); dg.add(v);
		std::vector<uint8_t> cp(len + 1);
		v = crc16_t10dif_copy(0x4321, cp.data(), d, len); if (v != refcrc::fast(refcrc::T10DIF).run(0x4321, d, len) || memcmp(cp.data(), d, len)) WFAIL("crc16_t10dif_copy len=%zu", len); dg.add(v);
		v = crc32_ieee(0x12345678, d, len); if (v != refcrc::fast(refcrc::IEEE).run(0x12345678, d, len)) WFAIL("crc32_ieee len=%zu", len); dg.add(v);
		v = crc32_gzip_refl(0x12345678, d, len); if (v != refcrc::fast(refcrc::GZIP).run(0x12345678, d, len)) WFAIL("crc32_gzip_refl len=%zu", len); dg.add(v);
		v = crc32_iscsi(d, (int) len, 0x12345678); if (v != refcrc::fast(refcrc::ISCSI).run(0x12345678, d, len)) WFAIL("crc32_iscsi len=%zu", len); dg.add(v);
#define W64(fn, M) v = fn(0x123456789abcdefull, d, len); if (v != refcrc::fast(refcrc::M).run(0x123456789abcdefull, d, len)) WFAIL(#fn " len=%zu", len); dg.add(v);
		W64(crc64_ecma_refl, ECMA_REFL) W64(crc64_ecma_norm, ECMA_NORM) W64(crc64_iso_refl, ISO_REFL) W64(crc64_iso_norm, ISO_NORM)
		W64(crc64_jones_refl, JONES_REFL) W64(crc64_jones_norm, JONES_NORM) W64(crc64_rocksoft_refl, ROCKSOFT_REFL) W64(crc64_rocksoft_norm, ROCKSOFT_NORM)
		v = isal_adler32(1, d, len); if (v != refcrc::adler(1, d, len)) WFAIL("isal_adler32 len=%zu", len); dg.add(v);
	}
	// --- zero detect
	{
		std::vector<uint8_t> z(700, 0);
		for (size_t len : {(size_t) 0, (size_t) 1, (size_t) 63, (size_t) 64, (size_t) 129, (size_t) 700}) {
			int r = isal_zero_detect(z.data(), len); if (r != 0) WFAIL("isal_zero_detect all-zero len=%zu", len);
			if (len) { z[len - 1] = 1; r = isal_zero_detect(z.data(), len); z[len - 1] = 0; if (r == 0) WFAIL("isal_zero_detect missed last byte len=%zu", len); }
			dg.add(len);
		}
	}
	// --- erasure code
	{
		const int k = 5, rows = 7;
		size_t len = light ? 160 : 333;
		std::vector<uint8_t> a(k * rows), tbl(32 * k * rows), tbl32(32 * k * rows);
		for (size_t i = 0; i < a.size(); i++) a[i] = (uint8_t) (pbt::mix64(seed + i) >> 7);
		std::vector<std::vector<uint8_t>> par(rows, std::vector<uint8_t>(len)), ref(rows, std::vector<uint8_t>(len)), upd(rows, std::vector<uint8_t>(len, 0));
		uint8_t *sp[k], *pp[rows], *rp[rows], *up[rows];
		for (int j = 0; j < k; j++) sp[j] = d + 500 * j + j; // 4*500+4+333 < 3000
		for (int r = 0; r < rows; r++) { pp[r] = par[r].data(); rp[r] = ref[r].data(); up[r] = upd[r].data(); }
		ec_init_tables(k, rows, a.data(), tbl.data());
		ec_encode_data((int) len, k, rows, tbl.data(), sp, pp);
		refgf::encode((int) len, k, rows, a.data(), sp, rp);
		for (int r = 0; r < rows; r++) { if (memcmp(pp[r], rp[r], len)) WFAIL("ec_encode_data row %d", r); dg.add(pp[r], len); }
		for (int j = k - 1; j >= 0; j--) ec_encode_data_update((int) len, k, rows, j, tbl.data(), sp[j], up);
		for (int r = 0; r < rows; r++) if (memcmp(up[r], rp[r], len)) WFAIL("ec_encode_data_update row %d", r);
		ec_init_tables_base(k, rows, a.data(), tbl32.data());
		std::vector<uint8_t> dp(320), dm(320, 0), mu(320);
		gf_vect_dot_prod(320, k, tbl32.data(), sp, dp.data());
		for (int i = 0; i < 320; i++) { uint8_t s = 0; for (int j = 0; j < k; j++) s ^= refgf::mul(a[j], sp[j][i]); if (dp[i] != s) WFAIL("gf_vect_dot_prod byte %d", i); }
		for (int j = 0; j < k; j++) gf_vect_mad(320, k, j, tbl32.data(), sp[j], dm.data());
		if (dm != dp) WFAIL("gf_vect_mad accumulation != gf_vect_dot_prod");
		std::vector<uint8_t> am(320 * 2 + 64);
		uint8_t *ms = (uint8_t *) (((uintptr_t) am.data() + 31) & ~(uintptr_t) 31), *md = ms + 320;
		memcpy(ms, d + 64, 320);
		int rc = gf_vect_mul(320, tbl32.data() + 32, ms, md);
		for (int i = 0; i < 320; i++) if (md[i] != refgf::mul(a[1], ms[i])) WFAIL("gf_vect_mul byte %d", i);
		dg.add(rc); dg.add(dp.data(), 320); dg.add(md, 320);
		if (g_with_base) {
			// the portable C kernels (what CPUs without the SIMD levels and assembly-less builds run) under the same regime: in C15 the library's
			// writable pages are read-only while this runs, so a kernel that keeps anything in a static (a cached table, a scratch buffer) faults
			std::vector<uint8_t> bmul(320), bdp(320), bmad(320, 0);
			int brc = gf_vect_mul_base(320, tbl32.data() + 32, ms, bmul.data());
			if (brc != rc || memcmp(bmul.data(), md, 320)) WFAIL("gf_vect_mul_base != gf_vect_mul");
			gf_vect_dot_prod_base(320, k, tbl32.data(), sp, bdp.data());
			if (bdp != dp) WFAIL("gf_vect_dot_prod_base != gf_vect_dot_prod");
			for (int j = 0; j < k; j++) gf_vect_mad_base(320, k, j, tbl32.data(), sp[j], bmad.data());
			if (bmad != dp) WFAIL("gf_vect_mad_base accumulation != gf_vect_dot_prod");
			std::vector<std::vector<uint8_t>> bpar(rows, std::vector<uint8_t>(len)), bupd(rows, std::vector<uint8_t>(len, 0));
			uint8_t *bp[rows], *bu[rows];
			for (int r = 0; r < rows; r++) { bp[r] = bpar[r].data(); bu[r] = bupd[r].data(); }
			ec_encode_data_base((int) len, k, rows, tbl32.data(), sp, bp);
			for (int j = 0; j < k; j++) ec_encode_data_update_base((int) len, k, rows, j, tbl32.data(), sp[j], bu);
			for (int r = 0; r < rows; r++) if (memcmp(bp[r], rp[r], len) || memcmp(bu[r], rp[r], len)) WFAIL("ec_encode_data_base / ec_encode_data_update_base row %d", r);
			uint64_t v;
			v = crc32_ieee_base(0x12345678, d, 777); if (v != refcrc::fast(refcrc::IEEE).run(0x12345678, d, 777)) WFAIL("crc32_ieee_base"); dg.add(v);
			v = crc32_gzip_refl_base(0x12345678, d, 777); if (v != refcrc::fast(refcrc::GZIP).run(0x12345678, d, 777)) WFAIL("crc32_gzip_refl_base"); dg.add(v);
			v = crc32_iscsi_base(d, 777, 0x12345678); if (v != refcrc::fast(refcrc::ISCSI).run(0x12345678, d, 777)) WFAIL("crc32_iscsi_base"); dg.add(v);
			v = crc16_t10dif_base(0x1234, d, 777); if (v != refcrc::fast(refcrc::T10DIF).run(0x1234, d, 777)) WFAIL("crc16_t10dif_base"); dg.add(v);
			v = crc64_ecma_refl_base(0x123456789abcdefull, d, 777); if (v != refcrc::fast(refcrc::ECMA_REFL).run(0x123456789abcdefull, d, 777)) WFAIL("crc64_ecma_refl_base"); dg.add(v);
			v = adler32_base(1, d, 777); if (v != refcrc::adler(1, d, 777)) WFAIL("adler32_base"); dg.add(v);
		}
	}
	// --- raid
	{
		const int v = 6;
		size_t len = 512;
		std::vector<uint8_t> mem(v * len + 64);
		uint8_t *base = (uint8_t *) (((uintptr_t) mem.data() + 63) & ~(uintptr_t) 63);
		void *arr[v];
		for (int i = 0; i < v; i++) { arr[i] = base + i * len; if (i < v - 2) memcpy(arr[i], d + i * 700, len); }
		int rc = pq_gen(v, (int) len, arr);
		if (rc) WFAIL("pq_gen rc=%d", rc);
		for (size_t x = 0; x < len; x++) {
			uint8_t p = 0, q = 0;
			for (int i = 0; i < v - 2; i++) { uint8_t b = ((uint8_t *) arr[i])[x]; p ^= b; q ^= refgf::mul(refgf::pow2(i), b); }
			if (((uint8_t *) arr[v - 2])[x] != p || ((uint8_t *) arr[v - 1])[x] != q) WFAIL("pq_gen byte %zu", x);
		}
		if (pq_check(v, (int) len, arr) != 0) WFAIL("pq_check rejects generated parity");
		((uint8_t *) arr[1])[77] ^= 4;
		if (pq_check(v, (int) len, arr) == 0) WFAIL("pq_check misses corruption");
		((uint8_t *) arr[1])[77] ^= 4;
		rc = xor_gen(v - 1, (int) len, arr);
		if (rc) WFAIL("xor_gen rc=%d", rc);
		if (xor_check(v - 1, (int) len, arr) != 0) WFAIL("xor_check rejects generated parity");
		((uint8_t *) arr[0])[len - 1] ^= 0x80;
		if (xor_check(v - 1, (int) len, arr) == 0) WFAIL("xor_check misses corruption");
		dg.add((uint8_t *) arr[v - 2], len); dg.add((uint8_t *) arr[v - 1], len);
	}
	// --- igzip: every level, stateless and streaming, decoded by ISA-L and by zlib
	{
		std::vector<uint8_t> lvlbuf(ISAL_DEF_LVL3_DEFAULT), out(n + n / 4 + 1024), dec, zdec;
		static const uint32_t LB[] = {0, ISAL_DEF_LVL1_DEFAULT, ISAL_DEF_LVL2_DEFAULT, ISAL_DEF_LVL3_DEFAULT};
		for (int level = 0; level <= 3; level++)
			for (int mode = 0; mode < 2; mode++) {
				struct isal_zstream s;
				size_t produced = 0;
				int gz = (level + mode) % 3 == 0 ? IGZIP_DEFLATE : (level + mode) % 3 == 1 ? IGZIP_GZIP : IGZIP_ZLIB;
				if (mode == 0) {
					isal_deflate_stateless_init(&s);
					s.level = level; s.level_buf = lvlbuf.data(); s.level_buf_size = LB[level]; s.gzip_flag = gz;
					s.next_in = d; s.avail_in = (uint32_t) n; s.next_out = out.data(); s.avail_out = (uint32_t) out.size();
					int rc = isal_deflate_stateless(&s);
					if (rc != COMP_OK) WFAIL("isal_deflate_stateless level %d rc=%d", level, rc);
					produced = s.total_out;
				} else {
					isal_deflate_init(&s);
					s.level = level; s.level_buf = lvlbuf.data(); s.level_buf_size = LB[level]; s.gzip_flag = gz;
					s.flush = (level & 1) ? SYNC_FLUSH : NO_FLUSH;
					size_t ip = 0;
					s.next_out = out.data(); s.avail_out = (uint32_t) out.size();
					int guard_calls = 0;
					while (s.internal_state.state != ZSTATE_END) {
						if (s.avail_in == 0 && ip < n) { size_t c = n - ip < 3001 ? n - ip : 3001; s.next_in = d + ip; s.avail_in = (uint32_t) c; ip += c; }
						s.end_of_stream = ip >= n;
						int rc = isal_deflate(&s);
						if (rc != COMP_OK) WFAIL("isal_deflate level %d rc=%d", level, rc);
						if (++guard_calls > 100000) WFAIL("isal_deflate level %d does not finish", level);
					}
					produced = s.total_out;
				}
				// decode with ISA-L
				struct inflate_state st;
				isal_inflate_init(&st);
				dec.assign(n + 16, 0);
				st.next_in = out.data(); st.avail_in = (uint32_t) produced; st.next_out = dec.data(); st.avail_out = (uint32_t) dec.size();
				st.crc_flag = gz == IGZIP_DEFLATE ? ISAL_DEFLATE : gz == IGZIP_GZIP ? ISAL_GZIP : ISAL_ZLIB;
				int rc = mode ? isal_inflate(&st) : isal_inflate_stateless(&st);
				if (rc != ISAL_DECOMP_OK || st.total_out != n || memcmp(dec.data(), d, n)) WFAIL("ISA-L inflate of level %d mode %d stream: rc=%d total_out=%u", level, mode, rc, st.total_out);
				// and with zlib
				int wb = gz == IGZIP_DEFLATE ? -15 : gz == IGZIP_GZIP ? 31 : 15;
				if (!zlib_raw_inflate(out.data(), produced, wb, zdec, n) || zdec.size() != n || memcmp(zdec.data(), d, n)) WFAIL("zlib rejects level %d mode %d stream (wrapper %d)", level, mode, gz);
				dg.add(dec.data(), n); dg.add(st.crc);
			}
		// preset dictionary (the hashing helper behind it takes five arguments and is dispatched)
		for (int level = 0; level <= 3; level++) {
			size_t dl = n / 3, pl = n / 4; // payload = a piece of the dictionary's own content
			struct isal_zstream s;
			isal_deflate_init(&s);
			s.level = level;
			std::vector<uint8_t> lbuf2(level ? ISAL_DEF_LVL3_DEFAULT : 1);
			if (level) { s.level_buf = lbuf2.data(); s.level_buf_size = (uint32_t) lbuf2.size(); }
			int rc = isal_deflate_set_dict(&s, d, (uint32_t) dl);
			if (rc != COMP_OK) WFAIL("isal_deflate_set_dict level %d rc=%d", level, rc);
			s.end_of_stream = 1;
			s.next_in = d + dl / 2; s.avail_in = (uint32_t) pl; s.next_out = out.data(); s.avail_out = (uint32_t) out.size();
			rc = isal_deflate(&s);
			if (rc != COMP_OK || s.internal_state.state != ZSTATE_END) WFAIL("isal_deflate with dictionary level %d rc=%d state %d", level, rc, (int) s.internal_state.state);
			size_t produced = s.total_out;
			// decodable with the same dictionary (zlib)
			z_stream z;
			memset(&z, 0, sizeof z);
			inflateInit2(&z, -15);
			inflateSetDictionary(&z, d, (uInt) dl);
			zdec.assign(pl + 64, 0);
			z.next_in = out.data(); z.avail_in = (uInt) produced; z.next_out = zdec.data(); z.avail_out = (uInt) zdec.size();
			int zr = inflate(&z, Z_FINISH);
			size_t got = z.total_out;
			inflateEnd(&z);
			if (zr != Z_STREAM_END || got != pl || memcmp(zdec.data(), d + dl / 2, pl)) WFAIL("zlib with the same dictionary rejects the level %d stream (rc %d, %zu of %zu bytes)", level, zr, got, pl);
			dg.add(pl);
			if (g_with_bytes) dg.add(out.data(), produced);
		}
		// custom tables from a histogram
		struct isal_huff_histogram hist;
		memset(&hist, 0, sizeof hist);
		isal_update_histogram(d, (int) n, &hist);
		static struct isal_hufftables ht; // large
		struct isal_hufftables *htp = (struct isal_hufftables *) malloc(sizeof(struct isal_hufftables));
		int rc = isal_create_hufftables(htp, &hist);
		if (rc) { free(htp); WFAIL("isal_create_hufftables rc=%d", rc); }
		struct isal_zstream s;
		isal_deflate_stateless_init(&s);
		s.hufftables = htp;
		s.next_in = d; s.avail_in = (uint32_t) n; s.next_out = out.data(); s.avail_out = (uint32_t) out.size();
		rc = isal_deflate_stateless(&s);
		size_t produced = s.total_out;
		free(htp);
		(void) ht;
		if (rc != COMP_OK) WFAIL("stateless with custom table rc=%d", rc);
		if (!zlib_raw_inflate(out.data(), produced, -15, zdec, n) || zdec.size() != n || memcmp(zdec.data(), d, n)) WFAIL("zlib rejects custom-table stream");
		uint64_t hs = 0;
		for (int i = 0; i < ISAL_DEF_LIT_LEN_SYMBOLS; i++) hs = pbt::mix64(hs ^ hist.lit_len_histogram[i]);
		for (int i = 0; i < ISAL_DEF_DIST_SYMBOLS; i++) hs = pbt::mix64(hs ^ hist.dist_histogram[i]);
		(void) hs; // histograms of different collectors may legitimately differ (different match finders): not part of the digest
	}
	return "";
#undef WFAIL
#undef W64
}

} // namespace workload
