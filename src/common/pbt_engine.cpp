// The only translation unit that includes rapidcheck: random search and
// shrinking over tapes, sweeps, replay, counters and the per-worker side file.
#include <rapidcheck.h>
#include <signal.h>
#include <unistd.h>
#include <fcntl.h>
#include <sys/mman.h>
#include <chrono>
#include <fstream>
#include <sstream>
#include "pbt.h"
#include "guard.h"

namespace pbt {

Options opt;

std::string fmt(const char *f, ...) {
	char buf[2048];
	va_list ap;
	va_start(ap, f);
	vsnprintf(buf, sizeof buf, f, ap);
	va_end(ap);
	return buf;
}

std::string jstr(const std::string &s) {
	std::string o = "\"";
	for (unsigned char c : s) {
		if (c == '"' || c == '\\') { o += '\\'; o += (char) c; }
		else if (c < 0x20 || c >= 0x7f) { char b[8]; snprintf(b, sizeof b, "\\u%04x", c); o += b; }
		else o += (char) c;
	}
	return o + "\"";
}

std::string jhex(const uint8_t *p, size_t n, size_t maxn) {
	std::string o = "\"";
	char b[4];
	for (size_t i = 0; i < n && i < maxn; i++) { snprintf(b, sizeof b, "%02x", p[i]); o += b; }
	if (n > maxn) o += "...";
	return o + "\"";
}

struct SubStats {
	uint64_t evals = 0, nontriv_evals = 0, skips = 0, enum_cases = 0;
	std::unordered_set<uint64_t> fps;
	std::map<std::string, uint64_t> labels;
	std::map<std::string, uint64_t> known_hits;
	std::map<std::string, uint64_t> skip_why;
	std::vector<std::string> samples;
	bool sweep_exhausted = false;
};

struct Failure {
	bool set = false;
	int sub = -1;
	std::vector<uint32_t> tape;
	std::string key, msg;
};

static const std::vector<Sub> *g_subs;
static std::vector<SubStats> g_stats;
static Failure g_fail;
static bool g_counting = true;
static uint64_t g_cfg_hash = 0;
static uint32_t *g_cur; // mmap'd "current case" page(s): [sub, len, tape...]
static const size_t CUR_WORDS = 4096;
static const size_t FP_CAP = 3000000;

enum Outcome { PASS, FAIL, SKIPPED };

static uint64_t g_shrink_evals = 0;
static std::chrono::steady_clock::time_point g_shrink_start;

static Outcome run_one(int si, const std::vector<uint32_t> &tape) {
	const Sub &s = (*g_subs)[si];
	if (!g_counting) {
		// shrinking phase: bounded effort (affects only how small the replay gets, never the verdict)
		if (g_shrink_evals == 0) g_shrink_start = std::chrono::steady_clock::now();
		g_shrink_evals++;
		double el = std::chrono::duration<double>(std::chrono::steady_clock::now() - g_shrink_start).count();
		if (g_shrink_evals > 600 || el > 45.0) return PASS;
	}
	SubStats &st = g_stats[si];
	if (g_cur) {
		size_t n = tape.size() < CUR_WORDS - 2 ? tape.size() : CUR_WORDS - 2;
		g_cur[0] = si;
		g_cur[1] = (uint32_t) n;
		memcpy(g_cur + 2, tape.data(), n * 4);
	}
	Tape t(tape);
	Ctx c;
	c.fp = mix64(si + 1 + g_cfg_hash);
	c.want_sample = g_counting && (st.evals < 3 || mix64(st.evals) % 997 == 0);
	try {
		s.body(t, c);
	} catch (const Skip &sk) {
		if (g_counting) { st.skips++; st.skip_why[sk.why]++; }
		guard::release_all();
		return SKIPPED;
	} catch (const Violation &v) {
		guard::release_all();
		if (opt.known.count(v.key)) {
			if (g_counting) { st.evals++; st.known_hits[v.key]++; }
			return PASS;
		}
		g_fail.set = true;
		g_fail.sub = si;
		g_fail.tape = tape;
		g_fail.key = v.key;
		g_fail.msg = v.msg;
		return FAIL;
	} catch (const OracleBug &b) {
		fprintf(stderr, "ORACLE-BUG sub=%s: %s\n", s.name, b.msg.c_str());
		fflush(stderr);
		_exit(3);
	}
	guard::release_all();
	if (g_counting) {
		st.evals++;
		for (auto &l : c.labels) st.labels[l]++;
		if (t.over) st.labels["tape-overrun(generator-health)"]++;
		if (c.nontrivial) {
			st.nontriv_evals++;
			if (st.fps.size() < FP_CAP) st.fps.insert(c.fp);
		}
		if (c.want_sample && !c.sample.empty()) {
			if (st.samples.size() < 6) st.samples.push_back(c.sample);
			else st.samples[st.evals % 6] = c.sample;
		}
	}
	return PASS;
}

struct Sink : SweepSink {
	int si;
	uint64_t idx = 0;
	bool stopped = false;
	bool emit(const std::vector<uint32_t> &tape) override {
		if (stopped) return false;
		uint64_t i = idx++;
		if ((int) (i % opt.nworkers) != opt.worker) return true;
		Outcome o = run_one(si, tape);
		if (o == FAIL) { stopped = true; return false; }
		return true;
	}
	bool thorough() const override { return opt.thorough; }
};

static std::vector<uint32_t> parse_tape(const std::string &txt, std::string &sub) {
	std::vector<uint32_t> t;
	size_t p = txt.find("\"sub\"");
	if (p != std::string::npos) {
		p = txt.find('"', txt.find(':', p));
		size_t q = txt.find('"', p + 1);
		sub = txt.substr(p + 1, q - p - 1);
	}
	p = txt.find("\"tape\"");
	if (p == std::string::npos) return t;
	p = txt.find('[', p);
	size_t q = txt.find(']', p);
	std::string body = txt.substr(p + 1, q - p - 1);
	const char *c = body.c_str();
	while (*c) {
		while (*c && (*c < '0' || *c > '9')) c++;
		if (!*c) break;
		t.push_back((uint32_t) strtoull(c, (char **) &c, 10));
	}
	return t;
}

static void write_side(const std::string &path, const char *pid, double wall) {
	std::ostringstream o;
	o << "{\"property\":" << jstr(pid) << ",\"worker\":" << opt.worker << ",\"seed\":" << opt.seed
	  << ",\"wall_s\":" << wall << ",\"subs\":[";
	for (size_t i = 0; i < g_subs->size(); i++) {
		const SubStats &st = g_stats[i];
		if (i) o << ",";
		o << "{\"name\":" << jstr((*g_subs)[i].name) << ",\"rule\":" << jstr((*g_subs)[i].rule ? (*g_subs)[i].rule : "")
		  << ",\"evaluations\":" << st.evals << ",\"nontrivial_evals\":" << st.nontriv_evals
		  << ",\"distinct_fps\":" << st.fps.size() << ",\"skips\":" << st.skips << ",\"labels\":{";
		bool f = true;
		for (auto &kv : st.labels) { o << (f ? "" : ",") << jstr(kv.first) << ":" << kv.second; f = false; }
		o << "},\"skip_why\":{";
		f = true;
		for (auto &kv : st.skip_why) { o << (f ? "" : ",") << jstr(kv.first) << ":" << kv.second; f = false; }
		o << "},\"known_hits\":{";
		f = true;
		for (auto &kv : st.known_hits) { o << (f ? "" : ",") << jstr(kv.first) << ":" << kv.second; f = false; }
		o << "},\"samples\":[";
		for (size_t k = 0; k < st.samples.size(); k++) o << (k ? "," : "") << st.samples[k];
		o << "]}";
	}
	o << "]";
	if (g_fail.set) {
		o << ",\"failure\":{\"sub\":" << jstr((*g_subs)[g_fail.sub].name) << ",\"key\":" << jstr(g_fail.key)
		  << ",\"msg\":" << jstr(g_fail.msg) << ",\"tape\":[";
		for (size_t k = 0; k < g_fail.tape.size(); k++) o << (k ? "," : "") << g_fail.tape[k];
		o << "]}";
	}
	o << "}\n";
	std::ofstream f(path);
	f << o.str();
	f.close();
	// fingerprints (binary u64)
	std::ofstream b(path + ".fp", std::ios::binary);
	for (auto &st : g_stats)
		for (uint64_t x : st.fps) b.write((const char *) &x, 8);
}

// simple greedy shrink for sweep-found failures (tapes are small)
static void shrink_failure(int si) {
	bool progress = true;
	int budget = 2000;
	while (progress && budget > 0) {
		progress = false;
		std::vector<uint32_t> cur = g_fail.tape;
		for (size_t i = 0; i < cur.size() && budget > 0; i++) {
			uint32_t orig = cur[i];
			if (orig == 0) continue;
			uint32_t cands[3] = {0, orig / 2, orig - 1};
			for (uint32_t cnd : cands) {
				if (cnd == orig) continue;
				std::vector<uint32_t> t = g_fail.tape;
				t[i] = cnd;
				Failure save = g_fail;
				budget--;
				if (run_one(si, t) == FAIL) { progress = true; break; }
				g_fail = save;
			}
			cur = g_fail.tape;
		}
	}
}

int pbt_main(int argc, char **argv, const char *pid, const std::vector<Sub> &subs) {
	g_subs = &subs;
	g_stats.resize(subs.size());
	std::string out, replay;
	uint64_t cases = 1000;
	int max_size = 100;
	for (int i = 1; i < argc; i++) {
		std::string a = argv[i];
		auto nxt = [&]() -> std::string { return i + 1 < argc ? argv[++i] : ""; };
		if (a == "--tier") opt.thorough = nxt() == "thorough";
		else if (a == "--seed") opt.seed = strtoull(nxt().c_str(), 0, 10);
		else if (a == "--worker") opt.worker = atoi(nxt().c_str());
		else if (a == "--nworkers") opt.nworkers = atoi(nxt().c_str());
		else if (a == "--cases") cases = strtoull(nxt().c_str(), 0, 10);
		else if (a == "--max-size") max_size = atoi(nxt().c_str());
		else if (a == "--out") out = nxt();
		else if (a == "--replay") replay = nxt();
		else if (a == "--cfg") opt.cfg = nxt();
		else if (a == "--scale") opt.scale = atof(nxt().c_str());
		else if (a == "--known" || a == "--only") {
			std::string v = nxt(), cur;
			std::set<std::string> &dst = a == "--known" ? opt.known : opt.only;
			for (char ch : v + ";") {
				if (ch == ';' || ch == ',') { if (!cur.empty()) dst.insert(cur); cur.clear(); }
				else cur += ch;
			}
		} else if (a == "--list") {
			for (auto &s : subs) printf("%s\n", s.name);
			return 0;
		} else { fprintf(stderr, "unknown arg %s\n", a.c_str()); return 2; }
	}
	for (char ch : opt.cfg) g_cfg_hash = g_cfg_hash * 131 + (unsigned char) ch;
	guard::init();

	if (!replay.empty()) {
		std::ifstream f(replay);
		std::stringstream ss;
		ss << f.rdbuf();
		std::string sub;
		std::vector<uint32_t> tape = parse_tape(ss.str(), sub);
		int si = -1;
		for (size_t i = 0; i < subs.size(); i++) if (sub == subs[i].name) si = (int) i;
		if (si < 0) { fprintf(stderr, "replay: unknown sub '%s'\n", sub.c_str()); return 2; }
		std::set<std::string> known = opt.known;
		opt.known.clear(); // a replay always reports
		Outcome o = run_one(si, tape);
		if (o == FAIL) {
			printf("REPLAY-FAIL property=%s sub=%s key=%s msg=%s\n", pid, sub.c_str(), g_fail.key.c_str(), g_fail.msg.c_str());
			return 1;
		}
		printf("REPLAY-PASS property=%s sub=%s%s\n", pid, sub.c_str(), o == SKIPPED ? " (skipped)" : "");
		return 0;
	}

	if (!out.empty()) {
		std::string curp = out + ".cur";
		int fd = open(curp.c_str(), O_RDWR | O_CREAT | O_TRUNC, 0644);
		if (fd >= 0 && ftruncate(fd, CUR_WORDS * 4) == 0) {
			void *p = mmap(0, CUR_WORDS * 4, PROT_READ | PROT_WRITE, MAP_SHARED, fd, 0);
			if (p != MAP_FAILED) g_cur = (uint32_t *) p;
		}
		if (fd >= 0) close(fd);
	}

	auto t0 = std::chrono::steady_clock::now();
	double wsum = 0;
	for (size_t i = 0; i < subs.size(); i++)
		if (subs[i].body && subs[i].weight > 0 && (opt.only.empty() || opt.only.count(subs[i].name))) wsum += subs[i].weight;

	for (size_t i = 0; i < subs.size() && !g_fail.set; i++) {
		const Sub &s = subs[i];
		if (!opt.only.empty() && !opt.only.count(s.name)) continue;
		if (s.sweep) {
			Sink sink;
			sink.si = (int) i;
			s.sweep(sink);
			if (g_fail.set) {
				g_counting = false;
				shrink_failure((int) i);
				break;
			}
			g_stats[i].sweep_exhausted = true;
		}
		if (s.weight <= 0 || wsum <= 0) continue;
		uint64_t n = (uint64_t) (cases * opt.scale * s.weight / wsum);
		if (n < 1) n = 1;
		rc::detail::TestParams params;
		params.seed = mix64(opt.seed * 1000003ull + i * 131 + opt.worker * 7919ull + 1);
		params.maxSuccess = (int) n;
		params.maxSize = max_size;
		params.maxDiscardRatio = 100;
		rc::detail::TestMetadata md;
		md.id = s.name;
		md.description = s.name;
		int tl = s.tape_len;
		int si = (int) i;
		auto res = rc::detail::checkTestable(
			[tl, si]() {
				// all randomness of a case comes from this generated vector
				std::vector<uint32_t> tape =
					*rc::gen::container<std::vector<uint32_t>>((size_t) tl, rc::gen::arbitrary<uint32_t>());
				Outcome o = run_one(si, tape);
				if (o == FAIL) {
					g_counting = false; // shrinking phase from here on
					RC_FAIL(g_fail.msg);
				}
			},
			md, params);
		if (!res.is<rc::detail::SuccessResult>() && !g_fail.set) {
			std::ostringstream os;
			rc::detail::printResultMessage(res, os);
			fprintf(stderr, "rapidcheck non-success without recorded failure in %s: %s\n", s.name, os.str().c_str());
			return 3;
		}
	}
	double wall = std::chrono::duration<double>(std::chrono::steady_clock::now() - t0).count();
	if (!out.empty()) write_side(out, pid, wall);
	if (g_fail.set) {
		fprintf(stderr, "FAIL property=%s sub=%s key=%s msg=%s\n", pid, subs[g_fail.sub].name, g_fail.key.c_str(), g_fail.msg.c_str());
		return 1;
	}
	return 0;
}

} // namespace pbt
