// Guard-page arena and fault conversion.
//
// One large PROT_NONE reservation is carved into [guard][data...][guard]
// slots by a bump allocator; release_all() re-protects the used range with a
// single mprotect (so the number of VMAs stays tiny).  Buffers are placed
// END-flush (last byte directly before an inaccessible page) or START-flush
// (first byte directly after one).  When an alignment request prevents exact
// flushness, the slack (< alignment) is filled with canary bytes that
// canaries_ok() verifies.  Faults raised inside guard::call() are turned into
// ordinary return values, so a property can report (and rapidcheck shrink)
// them.
#pragma once
#include <cstdint>
#include <cstddef>
#include <csetjmp>
#include <unistd.h>
#include <string>
#include <vector>
#include <utility>

namespace guard {

enum Place { END = 0, START = 1 };

struct Buf {
	uint8_t *p = nullptr;   // user pointer
	size_t len = 0;
	uint8_t *data_lo = nullptr; // first accessible byte
	uint8_t *data_hi = nullptr; // one past last accessible byte
	const char *name = "";
	int id = -1;
};

struct Fault {
	bool faulted = false;
	int sig = 0;
	void *addr = nullptr;
	void *rip = nullptr;
	std::string describe() const; // symbolised text incl. which buffer's guard was hit
};

void init();
// pointer p satisfies (uintptr_t)p % align_mod == align_off (align_mod power of two <= 4096)
Buf alloc(size_t len, Place pl, const char *name = "", size_t align_mod = 1, size_t align_off = 0);
// same, but contents initialised from src
Buf alloc_copy(const void *src, size_t len, Place pl, const char *name = "", size_t align_mod = 1, size_t align_off = 0);
bool canaries_ok(const Buf &b);
void set_readonly(const Buf &b);
void set_readwrite(const Buf &b);
void quarantine(const Buf &b); // PROT_NONE until release_all
void retire(const Buf &b);     // quarantine + give the physical pages back (long call histories)
void release_all();
size_t live_buffers();

// --- fault conversion -----------------------------------------------------
extern thread_local sigjmp_buf tl_jb;
extern thread_local volatile int tl_armed;
extern thread_local Fault tl_fault;
void thread_init(); // alternate signal stack for the calling thread

// unspecified-at-entry registers are filled with garbage before every guarded call (asm/cpu_shim.asm); mask from the host's usable state
extern "C" void verif_poison_vregs(unsigned mask);
extern unsigned g_poison_mask; // 0x100 = disabled

template <typename F> __attribute__((noinline)) Fault call(F &&f) {
	// no local of the caller is modified between sigsetjmp and the jump
	if (sigsetjmp(tl_jb, 1) == 0) {
		tl_armed = 1;
		if (g_poison_mask < 0x100) verif_poison_vregs(g_poison_mask);
		f();
		tl_armed = 0;
		return Fault();
	}
	tl_armed = 0;
	return tl_fault;
}

// same, with a watchdog: a call that has not returned after `seconds` of wall-clock time is converted into a fault (sig == SIGALRM).
// Only for calls whose honest duration is milliseconds (codec calls on inputs of at most a few hundred KiB): the limit is three to four
// orders of magnitude above that, so load cannot trip it, while a call that never returns becomes a reportable, replayable failure
// instead of a worker that is killed by the stage's wall-clock limit (which is "inconclusive", never a verdict).
template <typename F> __attribute__((noinline)) Fault call_timed(F &&f, unsigned seconds) {
	if (sigsetjmp(tl_jb, 1) == 0) {
		tl_armed = 1;
		alarm(seconds);
		if (g_poison_mask < 0x100) verif_poison_vregs(g_poison_mask);
		f();
		alarm(0);
		tl_armed = 0;
		return Fault();
	}
	alarm(0);
	tl_armed = 0;
	return tl_fault;
}

std::string symbolize(void *addr);

} // namespace guard
