// Grammar-based generator of RFC 1951 streams ("foreign encoder"): builds a
// stream from a generated program - blocks of any type in any order, arbitrary
// complete prefix codes with lengths up to 15, every length/distance symbol,
// overlapping copies, distances up to 32768, degenerate distance alphabets,
// 16/17/18 runs crossing the lit/len -> distance boundary, arbitrary pad bits.
// The decoded bytes are known by construction.  With a fault flag set, exactly
// one grammar-level fault is injected (C06).
#pragma once
#include "pbt.h"
#include "ref_inflate.h"
#include <algorithm>
#include <set>

namespace dgen {

enum Fault {
	F_NONE = 0,
	F_STORED_NLEN,     // LEN != ~NLEN                       -> invalid block
	F_BTYPE3,          // reserved block type               -> invalid block
	F_HLIT,            // HLIT field 30/31 (> 286 codes)    -> invalid block
	F_HDIST,           // HDIST field 30/31 (> 30 codes)    -> invalid block
	F_CL_OVERSUB,      // over-subscribed code-length code  -> invalid block
	F_LL_OVERSUB,      // over-subscribed literal/length code -> invalid block
	F_D_OVERSUB,       // over-subscribed distance code     -> invalid block
	F_REPEAT_NOPREV,   // code 16 as first length           -> invalid block
	F_REPEAT_OVERFLOW, // repeat running past HLIT+HDIST    -> invalid block
	F_NO_EOB,          // no code for symbol 256            -> invalid block
	F_DIST_SYM_30,     // fixed block using distance symbol 30/31 -> invalid symbol
	F_LIT_286,         // fixed block using lit/len symbol 286/287 -> invalid symbol
	F_DIST_TOO_FAR,    // distance > bytes produced (+dict) -> invalid look-back
	F_LL_INCOMPLETE,   // incomplete literal/length code (grey zone: zlib rejects, RFC silent)
	F_CL_INCOMPLETE,   // incomplete code-length code (grey zone)
	F_D_UNASSIGNED,    // incomplete distance code with codes longer than 10 bits AND a match that uses the unassigned bit pattern (must never be accepted)
	N_FAULTS
};
inline const char *fault_name(int f) {
	static const char *N[] = {"none", "stored_nlen", "btype3", "hlit>29", "hdist>29", "cl_oversubscribed", "ll_oversubscribed", "dist_oversubscribed", "repeat_no_prev",
	                          "repeat_overflow", "no_eob", "dist_symbol_30_31", "litlen_286_287", "dist_too_far", "ll_incomplete", "cl_incomplete", "dist_code_unassigned_pattern_used"};
	return N[f];
}
inline refinf::Status fault_status(int f) {
	using namespace refinf;
	static const Status S[] = {OK, E_STORED_LEN, E_BLOCKTYPE, E_HDR_COUNTS, E_HDR_COUNTS, E_CODELEN_CODE, E_LITLEN_CODE, E_DIST_CODE, E_REPEAT, E_REPEAT, E_NO_EOB, E_BAD_DIST_SYM,
	                           E_BAD_SYMBOL, E_DIST_TOO_FAR, E_LITLEN_CODE, E_CODELEN_CODE, E_DIST_CODE};
	return S[f];
}

struct BitW {
	std::vector<uint8_t> buf;
	uint64_t acc = 0;
	int nb = 0;
	void put(uint32_t v, int n) { // LSB first
		for (int i = 0; i < n; i++) {
			acc |= (uint64_t) ((v >> i) & 1) << nb;
			if (++nb == 8) { buf.push_back((uint8_t) acc); acc = 0; nb = 0; }
		}
	}
	void put_code(uint32_t code, int len) { // Huffman codes are packed MSB first
		for (int i = len - 1; i >= 0; i--) put((code >> i) & 1, 1);
	}
	void align(uint32_t padbits) { while (nb) { put(padbits & 1, 1); padbits >>= 1; } }
	uint64_t bitpos() const { return (uint64_t) buf.size() * 8 + nb; }
	void finish() { if (nb) { buf.push_back((uint8_t) acc); acc = 0; nb = 0; } }
};

struct Tok { uint16_t len; uint16_t dist; uint8_t lit; bool raw_sym; uint16_t ll_sym; uint16_t d_sym; }; // len==0 -> literal

inline int len_sym(unsigned len) { for (int s = 28; s >= 0; s--) if (len >= refinf::LBASE[s]) return s; return 0; }
inline int dist_sym(unsigned d) { for (int s = 29; s >= 0; s--) if (d >= refinf::DBASE[s]) return s; return 0; }

// canonical codes from lengths (RFC 1951 3.2.2)
inline void canon(const std::vector<uint8_t> &lens, std::vector<uint16_t> &codes) {
	int bl_count[17] = {0};
	for (uint8_t l : lens) bl_count[l]++;
	bl_count[0] = 0;
	uint32_t next[17] = {0}, code = 0;
	for (int b = 1; b <= 16; b++) { code = (code + bl_count[b - 1]) << 1; next[b] = code; }
	codes.assign(lens.size(), 0);
	for (size_t i = 0; i < lens.size(); i++) if (lens[i]) codes[i] = (uint16_t) next[lens[i]]++;
}

// random complete prefix code over `syms` with maximum length maxlen (2^maxlen >= |syms| required); |syms|==1 -> single 1-bit code
inline void random_code(pbt::Tape &t, const std::vector<int> &syms, int maxlen, std::vector<uint8_t> &lens, int deep_bias) {
	size_t n = syms.size();
	if (n == 0) return;
	if (n == 1) { lens[syms[0]] = 1; return; }
	std::vector<int> depth{1, 1};
	uint64_t sseed = t.bits64();
	while (depth.size() < n) {
		// pick a leaf that can still be split
		size_t tries = 0, idx;
		uint64_t r = pbt::mix64(sseed + depth.size());
		do {
			idx = (deep_bias && (r & 1)) ? depth.size() - 1 - (pbt::mix64(r + tries) % ((depth.size() + 1) / 2)) : pbt::mix64(r + tries) % depth.size();
			tries++;
		} while (depth[idx] >= maxlen && tries < 64);
		if (depth[idx] >= maxlen) { // fall back: the shallowest leaf
			idx = 0;
			for (size_t i = 1; i < depth.size(); i++) if (depth[i] < depth[idx]) idx = i;
		}
		int d = depth[idx] + 1;
		depth[idx] = d;
		depth.push_back(d);
	}
	// assign depths to symbols in a generated order
	uint64_t seed = t.bits64();
	std::vector<std::pair<uint64_t, int>> ord;
	for (size_t i = 0; i < n; i++) ord.push_back({pbt::mix64(seed + i), syms[i]});
	std::sort(ord.begin(), ord.end());
	for (size_t i = 0; i < n; i++) lens[ord[i].second] = (uint8_t) depth[i];
}

struct Params {
	int fault = F_NONE;
	const uint8_t *dict = nullptr;
	size_t dict_len = 0;
	size_t soft_max_out = 200000;
	bool allow_big = true;   // blocks that make >= 32 KiB of history available
	uint32_t max_dist = 32768;
};

struct Stream {
	std::vector<uint8_t> bytes;  // the deflate stream
	std::vector<uint8_t> data;   // what it decodes to (up to the fault, if any)
	uint64_t end_bit = 0;
	bool fault_applied = false;
	int fault = F_NONE;
	std::set<std::string> labels;
	int nblocks = 0;
	size_t nmatches = 0;
};

struct Gen {
	pbt::Tape &t;
	const Params &P;
	Stream &S;
	BitW w;
	Gen(pbt::Tape &tp, const Params &p, Stream &s) : t(tp), P(p), S(s) {}

	size_t avail_hist() const { return S.data.size() + P.dict_len; }
	// split the deepest leaf of a complete code again and again, handing the new branch to unused symbols (highest index first), until `depth` is reached;
	// the code stays complete.  Returns the symbol that ends up with the all-ones pattern of the deepest level (-1 if there were not enough free symbols).
	static int deepen(std::vector<uint8_t> &lens, int nsyms, int depth) {
		int mx = 0, at = -1, ncodes = 0;
		for (int i = 0; i < nsyms; i++) if (lens[i]) { ncodes++; if (lens[i] >= mx) mx = lens[i], at = i; }
		if (ncodes < 2) return -1;
		while (mx < depth) {
			int u = -1;
			for (int i = nsyms - 1; i >= 0; i--) if (!lens[i]) { u = i; break; }
			if (u < 0) return -1;
			lens[at] = lens[u] = (uint8_t) ++mx;
		}
		int last = -1;
		for (int i = 0; i < nsyms; i++) if (lens[i] == mx) last = i; // canonical order: the highest symbol of the deepest level gets the all-ones code
		return last;
	}
	std::vector<Tok> forced; // tokens for the next dynamic block, prepared by a special-purpose builder

	// A non-final block whose output ends at (or 1..3 bytes around) a multiple of 64 KiB with one or two literals directly before the end-of-block code:
	// the point where the decoder's internal 2*32 KiB window buffer is exactly full when all input is supplied at once.
	void window_fill_block() {
		size_t base = S.data.size();
		size_t target = 65536 * (size_t) t.range(1, 2) - base % 65536 + (size_t) t.pick<uint32_t>({0, 0, 1, 2, 3, 65535, 65534}) % 65536;
		if (target + base > 65536 * 2 + 3) target -= 65536;
		unsigned nl_end = (unsigned) t.range(1, 2), nl_start = (unsigned) t.range(1, 4), d = (unsigned) t.pick<uint32_t>({1, 2, 3, 4});
		if (d > nl_start) d = nl_start;
		uint64_t s = t.bits64();
		auto lit = [&](uint64_t i) { Tok k{}; k.len = 0; k.lit = (uint8_t) ("abcXYZ\0\xff"[pbt::mix64(s + i) % 8]); S.data.push_back(k.lit); forced.push_back(k); };
		for (unsigned i = 0; i < nl_start; i++) lit(i);
		while (S.data.size() - base + 3 + nl_end <= target) {
			size_t room = target - nl_end - (S.data.size() - base);
			unsigned len = room >= 258 + 3 || room == 258 ? 258 : room > 258 ? (unsigned) (room - 3) : (unsigned) room;
			Tok k{}; k.len = (uint16_t) len; k.dist = (uint16_t) d;
			emit_copy(len, d); forced.push_back(k); S.nmatches++;
		}
		while (S.data.size() - base + nl_end < target) lit(100 + S.data.size());
		for (unsigned i = 0; i < nl_end; i++) lit(200 + i);
		S.labels.insert("block-ends-at-64KiB-window-fill");
		dynamic_block(false);
		S.nblocks++;
	}

	void emit_copy(unsigned len, unsigned dist) {
		for (unsigned k = 0; k < len; k++) {
			int64_t s = (int64_t) S.data.size() - (int64_t) dist;
			S.data.push_back(s >= 0 ? S.data[(size_t) s] : P.dict[P.dict_len + s]);
		}
	}

	void gen_tokens(std::vector<Tok> &toks, size_t ntok, int litmode, int matchpct) {
		uint64_t lseed = t.bits64();
		for (size_t i = 0; i < ntok; i++) {
			uint64_t h = pbt::mix64(lseed + i * 7); // every token choice derives from the generated seed (bounded tape use)
			bool want_match = avail_hist() > 0 && (h % 100) < (uint64_t) matchpct;
			Tok k{};
			if (!want_match) {
				uint8_t b;
				switch (litmode) {
				case 0: b = (uint8_t) (h >> 8); break;
				case 1: b = (uint8_t) ("etaoin shrdlu"[(h >> 8) % 13]); break;
				case 2: b = (uint8_t) ((h >> 8) % 3 ? 0 : 0xFF); break;
				default: b = (uint8_t) (((h >> 8) % 7) * 37); break;
				}
				k.len = 0; k.lit = b;
				S.data.push_back(b);
			} else {
				size_t hist = avail_hist();
				unsigned maxd = (unsigned) std::min<size_t>(hist, P.max_dist);
				unsigned dist, len;
				switch ((h >> 16) % 8) {
				case 0: dist = 1; break;
				case 1: dist = std::min(2u, maxd); break;
				case 2: dist = maxd; break;                                   // farthest reachable (32768 once enough history exists)
				case 3: dist = maxd > 1 ? maxd - 1 : 1; break;
				case 4: dist = 1 + (unsigned) ((h >> 24) % std::min(maxd, 64u)); break;
				case 5: { int ds = (int) ((h >> 24) % 30); dist = std::min<unsigned>(maxd, refinf::DBASE[ds] + (unsigned) ((h >> 40) & ((1u << refinf::DEXT[ds]) - 1))); break; } // every distance symbol
				default: dist = 1 + (unsigned) ((h >> 24) % maxd); break;
				}
				switch ((h >> 32) % 6) {
				case 0: len = 3; break;
				case 1: len = 258; break;
				case 2: len = dist + 1 + (unsigned) ((h >> 44) % 20); break;    // overlapping copy
				case 3: { int ls = (int) ((h >> 44) % 29); len = refinf::LBASE[ls] + (unsigned) ((h >> 52) & ((1u << refinf::LEXT[ls]) - 1)); break; } // every length symbol
				default: len = 3 + (unsigned) ((h >> 44) % 40); break;
				}
				if (len < 3) len = 3;
				if (len > 258) len = 258;
				k.len = (uint16_t) len; k.dist = (uint16_t) dist;
				if (dist == 32768) S.labels.insert("dist=32768");
				if (len == 258) S.labels.insert("len=258");
				if (dist < len) S.labels.insert("overlap");
				if ((int64_t) S.data.size() - (int64_t) dist < 0) S.labels.insert("match-into-dictionary");
				emit_copy(len, dist);
				S.nmatches++;
			}
			toks.push_back(k);
			if (S.data.size() > P.soft_max_out) break;
		}
	}

	void write_tokens(const std::vector<Tok> &toks, const std::vector<uint8_t> &ll, const std::vector<uint16_t> &llc, const std::vector<uint8_t> &dl, const std::vector<uint16_t> &dc) {
		for (const Tok &k : toks) {
			if (k.raw_sym) { // fault injection: a raw symbol
				if (k.ll_sym != 0xFFFF) w.put_code(llc[k.ll_sym], ll[k.ll_sym]);
				if (k.d_sym != 0xFFFF) w.put_code(dc[k.d_sym], dl[k.d_sym]);
				continue;
			}
			if (k.len == 0) w.put_code(llc[k.lit], ll[k.lit]);
			else {
				int ls = len_sym(k.len);
				w.put_code(llc[257 + ls], ll[257 + ls]);
				w.put(k.len - refinf::LBASE[ls], refinf::LEXT[ls]);
				int ds = dist_sym(k.dist);
				w.put_code(dc[ds], dl[ds]);
				w.put(k.dist - refinf::DBASE[ds], refinf::DEXT[ds]);
			}
		}
		if (unassigned_dist_len) {
			// length symbol of an existing match (any assigned length code), then the unassigned distance pattern: all ones
			int ls = -1;
			for (const Tok &k : toks) if (k.len && !k.raw_sym) ls = len_sym(k.len);
			if (ls >= 0) {
				w.put_code(llc[257 + ls], ll[257 + ls]);
				w.put(0, refinf::LEXT[ls]);
				for (int i = 0; i < unassigned_dist_len; i++) w.put(1, 1);
				for (int i = 0; i < 13; i++) w.put(0, 1);
			}
			unassigned_dist_len = 0;
		}
		w.put_code(llc[256], ll[256]);
	}
	int unassigned_dist_len = 0;

	void stored_block(bool final) {
		w.put(final, 1);
		w.put(0, 2);
		w.align(t.raw()); // arbitrary pad bits
		size_t len;
		switch (t.range(0, 7)) {
		case 0: len = 0; break;
		case 1: len = (size_t) t.range(1, 40); break;
		case 2: len = P.allow_big ? 65535 : 300; S.labels.insert(P.allow_big ? "stored=65535" : "stored"); break;
		case 3: len = P.allow_big ? (size_t) t.range(32768, 40000) : 500; break;
		default: len = (size_t) t.spread(0, 3000); break;
		}
		if (len == 0) S.labels.insert("stored=0");
		uint32_t nlen = ~(uint32_t) len & 0xFFFF;
		if (P.fault == F_STORED_NLEN && !S.fault_applied) { nlen ^= 1u << t.range(0, 15); S.fault_applied = true; }
		w.put((uint32_t) len, 16);
		w.put(nlen, 16);
		if (S.fault_applied && P.fault == F_STORED_NLEN) { for (int i = 0; i < 40; i++) w.put(0x55, 8); return; }
		uint64_t seed = t.bits64();
		int kind = (int) t.range(0, 2);
		for (size_t i = 0; i < len; i++) {
			uint8_t b = kind == 0 ? (uint8_t) (pbt::mix64(seed + (i >> 3)) >> ((i & 7) * 8)) : kind == 1 ? (uint8_t) ("abcabcabd"[(i + seed) % 9]) : (uint8_t) 0;
			S.data.push_back(b);
			w.put(b, 8);
		}
	}

	void fixed_block(bool final) {
		w.put(final, 1);
		w.put(1, 2);
		std::vector<uint8_t> ll(288), dl(32, 5);
		for (int i = 0; i < 288; i++) ll[i] = i < 144 ? 8 : i < 256 ? 9 : i < 280 ? 7 : 8;
		std::vector<uint16_t> llc, dc;
		canon(ll, llc);
		canon(dl, dc);
		std::vector<Tok> toks;
		size_t ntok = decode_ntok(final);
		gen_tokens(toks, ntok, (int) t.range(0, 3), (int) t.pick<uint32_t>({30, 0, 60, 95}));
		if (!S.fault_applied) {
			if (P.fault == F_DIST_SYM_30 && avail_hist() >= 1) {
				Tok k{}; k.raw_sym = true; k.ll_sym = 257; k.d_sym = (uint16_t) (30 + t.range(0, 1));
				toks.push_back(k); S.fault_applied = true;
			} else if (P.fault == F_LIT_286) {
				Tok k{}; k.raw_sym = true; k.ll_sym = (uint16_t) (286 + t.range(0, 1)); k.d_sym = 0xFFFF;
				toks.push_back(k); S.fault_applied = true;
			} else if (P.fault == F_DIST_TOO_FAR) inject_too_far(toks);
		}
		write_tokens(toks, ll, llc, dl, dc);
	}

	void inject_too_far(std::vector<Tok> &toks) {
		size_t hist = avail_hist();
		if (hist >= 32768) return;
		unsigned dist = (unsigned) hist + 1 + (unsigned) t.range(0, 3) * (unsigned) t.range(0, 200);
		if (dist > 32768) dist = 32768;
		if (dist <= hist) return;
		Tok k{};
		k.len = (uint16_t) t.range(3, 20); k.dist = (uint16_t) dist; // written as a normal token; data is not extended
		toks.push_back(k);
		S.fault_applied = true;
	}

	size_t decode_ntok(bool final) {
		switch (t.range(0, 9)) {
		case 0: return 0;
		case 1: return (size_t) t.range(1, 6);
		case 2: return final ? (size_t) t.range(1900, 2400) : 300;  // final block starting with ~2 KiB of input left
		case 3: return final ? (size_t) t.range(3900, 4400) : 600;  // ... ~4 KiB
		case 4: return P.allow_big ? (size_t) t.range(150, 400) : 100;
		default: return (size_t) t.range(0, 120);
		}
	}

	void dynamic_block(bool final) {
		w.put(final, 1);
		w.put(2, 2);
		std::vector<Tok> toks;
		size_t ntok = decode_ntok(final);
		int matchpct = (int) t.pick<uint32_t>({30, 0, 60, 95, 100});
		if (!forced.empty()) { toks.swap(forced); (void) t.range(0, 3); } // prepared tokens (their bytes are already in S.data)
		else gen_tokens(toks, ntok, (int) t.range(0, 3), matchpct);
		if (P.fault == F_DIST_TOO_FAR && !S.fault_applied) inject_too_far(toks);
		// alphabets actually used
		std::set<int> llu{256}, du;
		for (const Tok &k : toks) {
			if (k.len == 0) llu.insert(k.lit);
			else { llu.insert(257 + len_sym(k.len)); du.insert(dist_sym(k.dist)); }
		}
		// extra unused symbols
		int extra = (int) t.range(0, 3) == 0 ? (int) t.range(0, 40) : 0;
		uint64_t es = t.bits64();
		for (int i = 0; i < extra; i++) llu.insert((int) (pbt::mix64(es + i) % 286));
		int dextra = (int) t.range(0, 3) == 0 ? (int) t.range(0, 10) : 0;
		for (int i = 0; i < dextra; i++) du.insert((int) (pbt::mix64(es + 100 + i) % 30));
		std::vector<uint8_t> ll(286, 0), dl(30, 0);
		std::vector<int> lls(llu.begin(), llu.end()), ds(du.begin(), du.end());
		int need = 1;
		while ((1u << need) < lls.size()) need++;
		int llmax = std::max(need, (int) t.pick<uint32_t>({9, 15, 7, 12, 13, 14, 15, 10}));
		if (llmax > 15) llmax = 15;
		random_code(t, lls, llmax, ll, (int) t.range(0, 1));
		int dneed = 1;
		while ((1u << dneed) < ds.size()) dneed++;
		int dmax = std::max(dneed, (int) t.pick<uint32_t>({5, 15, 11, 12, 13, 6}));
		if (dmax > 15) dmax = 15;
		int hdist_min = 1;
		if (ds.empty()) {
			switch (t.range(0, 2)) {
			case 0: S.labels.insert("dist-alphabet-empty"); break;                     // HDIST=1, length 0
			case 1: dl[t.range(0, 29)] = 1; S.labels.insert("dist-alphabet-single"); break; // one unused 1-bit code
			default: { std::vector<int> two{(int) t.range(0, 14), (int) t.range(15, 29)}; random_code(t, two, 1, dl, 0); break; }
			}
		} else {
			random_code(t, ds, dmax, dl, (int) t.range(0, 1));
			if (ds.size() == 1) S.labels.insert("dist-alphabet-single");
		}
		if (lls.size() == 1) S.labels.insert("litlen-alphabet-only-eob");
		// grammar faults on the code sets
		bool f = !S.fault_applied;
		if (f && P.fault == F_NO_EOB) { ll[256] = 0; if (lls.size() == 1) ll[0] = 1, ll[1] = 1; S.fault_applied = true; }
		bool deep_over = f && (P.fault == F_LL_OVERSUB || P.fault == F_D_OVERSUB) && t.coin();
		if (deep_over && P.fault == F_LL_OVERSUB && lls.size() >= 2) {
			std::vector<uint8_t> l2(ll);
			if (deepen(l2, 286, 15) >= 0) { for (int i = 285; i >= 0; i--) if (!l2[i]) { l2[i] = 15; ll = l2; S.fault_applied = true; S.labels.insert("oversubscribed-only-at-15-bits"); break; } }
		}
		if (deep_over && P.fault == F_D_OVERSUB && ds.size() >= 2) {
			std::vector<uint8_t> d2(dl);
			if (deepen(d2, 30, 15) >= 0) { for (int i = 29; i >= 0; i--) if (!d2[i]) { d2[i] = 15; dl = d2; S.fault_applied = true; S.labels.insert("oversubscribed-only-at-15-bits"); break; } }
		}
		if (f && !S.fault_applied && P.fault == F_LL_OVERSUB) { int mn = 16, at = 256; for (int s : lls) if (ll[s] < mn) mn = ll[s], at = s; if (ll[at] > 1) { ll[at]--; S.fault_applied = true; } else if (lls.size() >= 2) { for (int i = 0; i < 286; i++) if (!ll[i]) { ll[i] = 1; S.fault_applied = true; break; } } }
		if (f && P.fault == F_LL_INCOMPLETE && lls.size() >= 2) { int mx = 0, at = -1; for (int s : lls) if (s != 256 && ll[s] >= mx) mx = ll[s], at = s; if (at >= 0 && mx < 15) { ll[at]++; S.fault_applied = true; } }
		// over-subscription confined to the deepest level: complete code deepened to 15 bits plus one more 15-bit code (Kraft sum 1 + 2^-15)
		if (f && P.fault == F_D_UNASSIGNED && ds.size() >= 2 && !toks.empty()) {
			std::vector<uint8_t> d2(dl);
			int last = deepen(d2, 30, (int) t.range(11, 15));
			if (last >= 0 && !du.count(last)) {
				int deep = d2[last];
				d2[last] = 0; // its all-ones pattern is now unassigned; the code is incomplete by 2^-deep
				dl = d2;
				// a match whose distance code is that pattern, right after the generated tokens
				unassigned_dist_len = deep;
				S.fault_applied = true;
			}
		}
		if (f && !S.fault_applied && P.fault == F_D_OVERSUB && ds.size() >= 2) { int mn = 16, at = 0; for (int s : ds) if (dl[s] < mn) mn = dl[s], at = s; if (dl[at] > 1) { dl[at]--; S.fault_applied = true; } else { for (int i = 0; i < 30; i++) if (!dl[i]) { dl[i] = 1; S.fault_applied = true; break; } } }
		int max_ll_len = 0, max_d_len = 0;
		for (uint8_t l : ll) max_ll_len = std::max<int>(max_ll_len, l);
		for (uint8_t l : dl) max_d_len = std::max<int>(max_d_len, l);
		if (max_ll_len >= 13) S.labels.insert("litlen-code>=13bits");
		if (max_d_len >= 11) S.labels.insert("dist-code>=11bits");
		// HLIT / HDIST
		int hi_ll = 256, hi_d = 0;
		for (int i = 0; i < 286; i++) if (ll[i]) hi_ll = std::max(hi_ll, i);
		for (int i = 0; i < 30; i++) if (dl[i]) hi_d = i;
		int hlit = std::max(257, hi_ll + 1), hdist = std::max(hdist_min, hi_d + 1);
		if (t.range(0, 3) == 0) hlit = (int) t.range(hlit, 286);
		if (t.range(0, 3) == 0) hdist = (int) t.range(hdist, 30);
		int hlit_field = hlit - 257, hdist_field = hdist - 1;
		std::vector<uint8_t> all(ll.begin(), ll.begin() + hlit);
		all.insert(all.end(), dl.begin(), dl.begin() + hdist);
		if (f && P.fault == F_HLIT) { hlit_field = 30 + (int) t.range(0, 1); S.fault_applied = true; }
		if (f && P.fault == F_HDIST) { hdist_field = 30 + (int) t.range(0, 1); S.fault_applied = true; }
		// run-length encode the lengths with generated choices (runs may cross the lit/len -> distance boundary)
		struct CL { uint8_t sym; uint8_t extra; };
		std::vector<CL> cl;
		uint64_t rs = t.bits64();
		int rle_mode = (int) t.range(0, 3); // 0 greedy, 1 never, 2/3 random
		if (f && P.fault == F_REPEAT_NOPREV) { cl.push_back({16, (uint8_t) t.range(0, 3)}); S.fault_applied = true; }
		size_t i = 0;
		size_t stop = all.size();
		bool overflow_fault = f && P.fault == F_REPEAT_OVERFLOW;
		if (overflow_fault) stop = all.size() - (size_t) t.range(1, 2); // the last one or two lengths are replaced by a repeat that runs past HLIT+HDIST
		while (i < stop) {
			size_t run = 1;
			while (i + run < stop && all[i + run] == all[i]) run++;
			bool use = rle_mode == 0 || (rle_mode >= 2 && (pbt::mix64(rs + i) & 1));
			if (use && all[i] == 0 && run >= 3 && i > 0 && all[i - 1] == 0 && rle_mode == 3 && (pbt::mix64(rs + i * 7) & 2)) {
				// "repeat previous" applied to a zero length (legal; typically right after a 17/18 zero run, which no encoder emits)
				size_t r = 3 + pbt::mix64(rs + i * 11) % (std::min<size_t>(run, 6) - 2);
				cl.push_back({16, (uint8_t) (r - 3)});
				if (!cl.empty() && cl.size() >= 2 && cl[cl.size() - 2].sym >= 17) S.labels.insert("repeat16-directly-after-zero-run");
				if (i < (size_t) hlit && i + r > (size_t) hlit) S.labels.insert("repeat-crosses-litlen/dist-boundary");
				i += r;
			} else if (use && all[i] == 0 && run >= 3) {
				size_t r = std::min<size_t>(run, 138);
				if (rle_mode >= 2) r = 3 + pbt::mix64(rs + i * 3) % (r - 2);
				if (r >= 11) cl.push_back({18, (uint8_t) (r - 11)}); else cl.push_back({17, (uint8_t) (r - 3)});
				if (i < (size_t) hlit && i + r > (size_t) hlit) S.labels.insert("repeat-crosses-litlen/dist-boundary");
				i += r;
			} else if (use && i > 0 && all[i] == all[i - 1] && run >= 3) {
				size_t r = std::min<size_t>(run, 6);
				if (rle_mode >= 2) r = 3 + pbt::mix64(rs + i * 5) % (r - 2);
				cl.push_back({16, (uint8_t) (r - 3)});
				if (i < (size_t) hlit && i + r > (size_t) hlit) S.labels.insert("repeat-crosses-litlen/dist-boundary");
				i += r;
			} else { cl.push_back({all[i], 0}); i++; }
		}
		if (overflow_fault) { cl.push_back({(uint8_t) (t.coin() ? 18 : 17), (uint8_t) t.range(0, 7)}); S.fault_applied = true; } // 17: 3..10 zeros, 18: 11..18 zeros > 2 remaining
		std::set<int> clu;
		for (auto &c : cl) clu.insert(c.sym);
		if (clu.size() == 1) clu.insert((*clu.begin() + 1) % 19); // the code-length code must be complete: at least two symbols
		if (t.range(0, 3) == 0) clu.insert((int) t.range(0, 18));
		std::vector<uint8_t> cll(19, 0);
		std::vector<int> cls(clu.begin(), clu.end());
		int cneed = 1;
		while ((1u << cneed) < cls.size()) cneed++;
		int cmax = std::max(cneed, (int) t.pick<uint32_t>({7, 4, 5, 6, 7}));
		if (cmax > 7) cmax = 7;
		random_code(t, cls, cmax, cll, 0);
		if (f && P.fault == F_CL_OVERSUB) { int mn = 8, at = cls[0]; for (int s : cls) if (cll[s] < mn) mn = cll[s], at = s; if (cll[at] > 1) cll[at]--; else { for (int q = 0; q < 19; q++) if (!cll[q]) { cll[q] = 1; break; } } S.fault_applied = true; }
		if (f && P.fault == F_CL_INCOMPLETE) { int mx = 0, at = -1; for (int s : cls) if (cll[s] >= mx) mx = cll[s], at = s; if (mx < 7) { cll[at]++; S.fault_applied = true; } }
		std::vector<uint16_t> clc;
		canon(cll, clc);
		int hclen = 4;
		for (int q = 0; q < 19; q++) if (cll[refinf::CLORDER[q]]) hclen = std::max(hclen, q + 1);
		if (t.range(0, 3) == 0) hclen = (int) t.range(hclen, 19);
		w.put(hlit_field, 5);
		w.put(hdist_field, 5);
		w.put(hclen - 4, 4);
		for (int q = 0; q < hclen; q++) w.put(cll[refinf::CLORDER[q]], 3);
		for (auto &c : cl) {
			w.put_code(clc[c.sym], cll[c.sym]);
			if (c.sym == 16) w.put(c.extra, 2);
			else if (c.sym == 17) w.put(c.extra, 3);
			else if (c.sym == 18) w.put(c.extra, 7);
		}
		std::vector<uint16_t> llc, dc;
		std::vector<uint8_t> ll288(ll), dl32(dl);
		canon(ll288, llc);
		canon(dl32, dc);
		// header-level faults end the useful part of the stream: pad and stop
		if (S.fault_applied && (P.fault == F_HLIT || P.fault == F_HDIST || P.fault == F_CL_OVERSUB || P.fault == F_LL_OVERSUB || P.fault == F_D_OVERSUB || P.fault == F_REPEAT_NOPREV ||
		                        P.fault == F_REPEAT_OVERFLOW || P.fault == F_NO_EOB || P.fault == F_CL_INCOMPLETE)) {
			for (int q = 0; q < 40; q++) w.put(0xA5, 8);
			return;
		}
		write_tokens(toks, ll288, llc, dl32, dc);
	}

	void run() {
		int nblocks = (int) (t.range(0, 3) == 0 ? t.range(1, 8) : t.range(1, 3));
		bool bulk = P.allow_big && t.range(0, 5) == 0; // make 32 KiB of history available early
		if (P.allow_big && P.fault == F_NONE && !bulk && P.soft_max_out >= 150000 && t.range(0, 5) == 0) window_fill_block();
		for (int b = 0; b < nblocks; b++) {
			bool final = b == nblocks - 1;
			size_t before = S.data.size();
			if (S.fault_applied) break;
			if (P.fault == F_BTYPE3 && !S.fault_applied && (final || t.range(0, 2) == 0)) {
				w.put(t.coin(), 1); w.put(3, 2); S.fault_applied = true;
				for (int q = 0; q < 40; q++) w.put(0x33, 8);
				break;
			}
			int ty = (int) t.range(0, 5);
			if (P.fault != F_NONE && !S.fault_applied && (final || t.coin())) {
				// construction instead of rejection: the block type the fault lives in
				if (P.fault == F_STORED_NLEN) ty = 0;
				else if (P.fault == F_DIST_SYM_30 || P.fault == F_LIT_286) ty = 1;
				else if (P.fault != F_DIST_TOO_FAR && P.fault != F_BTYPE3) ty = 3;
			}
			if (bulk && b == 0) {
				// a stored block of >= 32 KiB, or a run of long matches
				w.put(final, 1); w.put(0, 2); w.align(0);
				size_t len = (size_t) t.range(32768, 33300);
				w.put((uint32_t) len, 16); w.put(~(uint32_t) len & 0xFFFF, 16);
				uint64_t seed = t.bits64();
				for (size_t i = 0; i < len; i++) { uint8_t v = (uint8_t) (pbt::mix64(seed + (i >> 5)) >> ((i & 3) * 8)); S.data.push_back(v); w.put(v, 8); }
				S.labels.insert("bulk-32k-history");
			} else if (ty == 0) stored_block(final);
			else if (ty <= 2) fixed_block(final);
			else dynamic_block(final);
			S.nblocks++;
			if (S.data.size() == before) S.labels.insert("empty-block");
			if (S.data.size() > P.soft_max_out && !final) {
				// close the stream with an empty final fixed block
				w.put(1, 1); w.put(1, 2); w.put_code(0, 7);
				S.nblocks++;
				break;
			}
		}
		S.end_bit = w.bitpos();
		w.finish();
		S.bytes = w.buf;
		S.fault = P.fault;
		if (S.nblocks >= 3) S.labels.insert("blocks>=3");
	}
};

inline void generate(pbt::Tape &t, const Params &p, Stream &s) {
	Gen g(t, p, s);
	g.run();
}

} // namespace dgen
