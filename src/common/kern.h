// helpers shared by the kernel-level properties (C03, C04, C08, C13, C20, C05)
#pragma once
#include "pbt.h"
#include "guard.h"
#include "cpu.h"
#include <string>

namespace kern {

struct Placement {
	guard::Place pl;
	size_t mod, off;
	int mode;
	std::string desc() const { return pbt::fmt("%s/%s%zu+%zu", pl == guard::END ? "end" : "start", mode < 2 ? "flush:" : "aligned:", mod, off); }
};

// mode 0: end-flush, 1: start-flush, 2: end + alignment offset, 3: start + alignment offset.
// req = alignment the API documents (1 = none); offsets are multiples of req below 64 (or below 4096 when wide).
inline Placement decode_placement(pbt::Tape &t, size_t req = 1) {
	Placement p;
	p.mode = (int) t.range(0, 3);
	p.pl = (p.mode & 1) ? guard::START : guard::END;
	if (p.mode < 2) { p.mod = req; p.off = 0; }
	else {
		p.mod = req > 64 ? req : 64;
		size_t steps = p.mod / req;
		p.off = (size_t) t.range(0, steps - 1) * req;
	}
	return p;
}
inline guard::Buf alloc(size_t len, const Placement &p, const char *name) { return guard::alloc(len, p.pl, name, p.mod, p.off); }

// lengths: boundary values first, then uniform up to `big`
inline size_t decode_len(pbt::Tape &t, size_t big) {
	static const uint32_t B[] = {0, 1, 2, 3, 4, 7, 8, 9, 15, 16, 17, 31, 32, 33, 47, 48, 49, 63, 64, 65, 95, 96, 97, 127, 128, 129, 191, 192, 193, 255, 256, 257,
	                             258, 259, 383, 384, 385, 511, 512, 513, 1023, 1024, 1025, 2047, 2048, 2049, 4095, 4096, 4097, 5551, 5552, 5553, 8191, 8192, 8193,
	                             16383, 16384, 16385, 32767, 32768, 32769, 65534, 65535, 65536, 65537};
	unsigned mode = (unsigned) t.range(0, 3);
	size_t v;
	if (mode == 0) v = B[t.range(0, sizeof(B) / sizeof(B[0]) - 1)];
	else if (mode == 1) v = (size_t) t.range(0, 1100);
	else if (mode == 2) v = (size_t) t.spread(0, 70000);
	else v = (size_t) t.spread(0, big);
	return v > big ? big : v;
}

// deterministic data fill from a generated seed
inline void fill(uint8_t *p, size_t n, uint64_t seed, int kind) {
	switch (kind) {
	case 0: // random; one seed in eight gives record-like sparse data instead: 16-byte lanes that are entirely zero next to random ones
		if ((pbt::mix64(seed ^ 0x51ab5e) & 7) == 5) { for (size_t i = 0; i < n; i++) p[i] = (pbt::mix64(seed + 977 * (i >> 4)) & 1) ? 0 : (uint8_t) (pbt::mix64(seed + (i >> 3)) >> ((i & 7) * 8)); break; }
		for (size_t i = 0; i < n; i++) p[i] = (uint8_t) (pbt::mix64(seed + (i >> 3)) >> ((i & 7) * 8));
		break;
	case 1: memset(p, 0, n); break;
	case 2: memset(p, 0xFF, n); break;
	case 3: for (size_t i = 0; i < n; i++) p[i] = (uint8_t) (i + seed); break; // sawtooth
	default: for (size_t i = 0; i < n; i++) p[i] = (uint8_t) ("abcdefgh"[(i + seed) % 5]); break;
	}
}

// apply a named cpu level; throws Skip if the physical host cannot execute what the level offers
inline void use_level(const char *name) {
	cpu::Config c;
	if (!cpu::level_config(name, c)) throw pbt::OracleBug(std::string("unknown cpu level ") + name);
	if (!cpu::host_can_run(c)) throw pbt::Skip(std::string("host lacks features of level ") + name);
	cpu::apply(c);
}

} // namespace kern
