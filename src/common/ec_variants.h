// Registry of the erasure-code kernels (direct per-ISA symbols + dispatchers)
#pragma once
#include "kern.h"
#include "ref_gf.h"
extern "C" {
#include "erasure_code.h"
void ec_init_tables_gfni(int k, int rows, unsigned char *a, unsigned char *g_tbls);
#define DP1(f) void gf_vect_dot_prod_##f(int, int, unsigned char *, unsigned char **, unsigned char *);
#define DPN(n, f) void gf_##n##vect_dot_prod_##f(int, int, unsigned char *, unsigned char **, unsigned char **);
#define MD1(f) void gf_vect_mad_##f(int, int, int, unsigned char *, unsigned char *, unsigned char *);
#define MDN(n, f) void gf_##n##vect_mad_##f(int, int, int, unsigned char *, unsigned char *, unsigned char **);
#define ENC(f) void ec_encode_data_##f(int, int, int, unsigned char *, unsigned char **, unsigned char **);
#define UPD(f) void ec_encode_data_update_##f(int, int, int, int, unsigned char *, unsigned char *, unsigned char **);
DP1(avx512) DPN(2, avx512) DPN(3, avx512) DPN(4, avx512) DPN(5, avx512) DPN(6, avx512)
DP1(avx512_gfni) DPN(2, avx512_gfni) DPN(3, avx512_gfni) DPN(4, avx512_gfni) DPN(5, avx512_gfni) DPN(6, avx512_gfni)
DP1(avx2_gfni) DPN(2, avx2_gfni) DPN(3, avx2_gfni)
MD1(avx512) MDN(2, avx512) MDN(3, avx512) MDN(4, avx512) MDN(5, avx512) MDN(6, avx512)
MD1(avx512_gfni) MDN(2, avx512_gfni) MDN(3, avx512_gfni) MDN(4, avx512_gfni) MDN(5, avx512_gfni) MDN(6, avx512_gfni)
MD1(avx2_gfni) MDN(2, avx2_gfni) MDN(3, avx2_gfni) MDN(4, avx2_gfni) MDN(5, avx2_gfni)
ENC(avx512) ENC(avx2_gfni) ENC(avx512_gfni) UPD(avx512) UPD(avx2_gfni) UPD(avx512_gfni)
int gf_vect_mul_sse(int, unsigned char *, void *, void *);
int gf_vect_mul_avx(int, unsigned char *, void *, void *);
}

namespace ecv {

struct Family { const char *name; int minlen; const char *level; bool gfni; };
static const Family FAM[] = {
	{"base", 0, "base", false}, {"sse", 16, "sse", false}, {"avx", 16, "avx", false}, {"avx2", 32, "avx2", false},
	{"avx512", 64, "avx512", false}, {"avx2_gfni", 0, "avx2_g2", true}, {"avx512_gfni", 0, "avx512_g2", true}};
enum { F_BASE, F_SSE, F_AVX, F_AVX2, F_AVX512, F_AVX2_GFNI, F_AVX512_GFNI, NFAM };

struct Kernel { const char *name; int n; int fam; void *fn; };
#define K1(pfx, f, F) {"gf_vect_" #pfx "_" #f, 1, F, (void *) gf_vect_##pfx##_##f}
#define KN(n, pfx, f, F) {"gf_" #n "vect_" #pfx "_" #f, n, F, (void *) gf_##n##vect_##pfx##_##f}
#define K6(pfx, f, F) K1(pfx, f, F), KN(2, pfx, f, F), KN(3, pfx, f, F), KN(4, pfx, f, F), KN(5, pfx, f, F), KN(6, pfx, f, F)
static const Kernel DOT[] = {
	K1(dot_prod, base, F_BASE),
	K6(dot_prod, sse, F_SSE), K6(dot_prod, avx, F_AVX), K6(dot_prod, avx2, F_AVX2), K6(dot_prod, avx512, F_AVX512), K6(dot_prod, avx512_gfni, F_AVX512_GFNI),
	K1(dot_prod, avx2_gfni, F_AVX2_GFNI), KN(2, dot_prod, avx2_gfni, F_AVX2_GFNI), KN(3, dot_prod, avx2_gfni, F_AVX2_GFNI)};
static const int NDOT = sizeof(DOT) / sizeof(DOT[0]);
static const Kernel MAD[] = {
	K1(mad, base, F_BASE),
	K6(mad, sse, F_SSE), K6(mad, avx, F_AVX), K6(mad, avx2, F_AVX2), K6(mad, avx512, F_AVX512), K6(mad, avx512_gfni, F_AVX512_GFNI),
	K1(mad, avx2_gfni, F_AVX2_GFNI), KN(2, mad, avx2_gfni, F_AVX2_GFNI), KN(3, mad, avx2_gfni, F_AVX2_GFNI), KN(4, mad, avx2_gfni, F_AVX2_GFNI), KN(5, mad, avx2_gfni, F_AVX2_GFNI)};
static const int NMAD = sizeof(MAD) / sizeof(MAD[0]);

typedef void (*enc_fn)(int, int, int, unsigned char *, unsigned char **, unsigned char **);
typedef void (*upd_fn)(int, int, int, int, unsigned char *, unsigned char *, unsigned char **);
struct Enc { const char *name; int fam; enc_fn fn; };
static const Enc ENCS[] = {{"ec_encode_data_base", F_BASE, ec_encode_data_base}, {"ec_encode_data_sse", F_SSE, ec_encode_data_sse}, {"ec_encode_data_avx", F_AVX, ec_encode_data_avx},
                           {"ec_encode_data_avx2", F_AVX2, ec_encode_data_avx2}, {"ec_encode_data_avx512", F_AVX512, ec_encode_data_avx512},
                           {"ec_encode_data_avx2_gfni", F_AVX2_GFNI, ec_encode_data_avx2_gfni}, {"ec_encode_data_avx512_gfni", F_AVX512_GFNI, ec_encode_data_avx512_gfni}};
struct Upd { const char *name; int fam; upd_fn fn; };
static const Upd UPDS[] = {{"ec_encode_data_update_base", F_BASE, ec_encode_data_update_base}, {"ec_encode_data_update_sse", F_SSE, ec_encode_data_update_sse},
                           {"ec_encode_data_update_avx", F_AVX, ec_encode_data_update_avx}, {"ec_encode_data_update_avx2", F_AVX2, ec_encode_data_update_avx2},
                           {"ec_encode_data_update_avx512", F_AVX512, ec_encode_data_update_avx512}, {"ec_encode_data_update_avx2_gfni", F_AVX2_GFNI, ec_encode_data_update_avx2_gfni},
                           {"ec_encode_data_update_avx512_gfni", F_AVX512_GFNI, ec_encode_data_update_avx512_gfni}};
static const int NENC = 7;

inline void require_family(int fam, const char *what) {
	cpu::Config cfg;
	cpu::level_config(FAM[fam].level, cfg);
	if (!cpu::host_can_run(cfg)) throw pbt::Skip(std::string("host cannot execute ") + what);
}

// coefficient matrix generator: uniform, structured rows (0, 1, identity-like)
inline void gen_coef(pbt::Tape &t, std::vector<uint8_t> &a, int rows, int k) {
	a.resize((size_t) rows * k);
	uint64_t seed = t.bits64();
	int mode = (int) t.range(0, 5);
	for (int r = 0; r < rows; r++)
		for (int j = 0; j < k; j++) {
			uint8_t v = (uint8_t) (pbt::mix64(seed + r * 1000 + j) >> 11);
			if (mode == 1 && ((r + j) & 3) == 0) v = 0;
			if (mode == 2 && ((r ^ j) & 1)) v = 1;
			if (mode == 3) v = (uint8_t) (r == (j % (rows ? rows : 1)) ? 1 : 0);
			if (mode == 4) v = (uint8_t) (v & 1);
			a[(size_t) r * k + j] = v;
		}
}

// table builder matching the consumer family
inline void build_tables(bool gfni, int k, int rows, uint8_t *a, uint8_t *tbl) {
	if (gfni) ec_init_tables_gfni(k, rows, a, tbl);
	else ec_init_tables_base(k, rows, a, tbl);
}

} // namespace ecv
