// Rocksoft-model CRC reference, bit at a time, written from the polynomial
// definitions (a 256-entry table derived from the bit-serial step is used for
// speed and cross-checked against the bit-serial form at start-up), plus the
// RFC 1950 Adler-32 definition.
#pragma once
#include <cstdint>
#include <cstddef>
#include <cstring>
#include <string>
#include "pbt.h"

namespace refcrc {

struct Model {
	const char *name;
	int width;
	uint64_t poly;  // normal (MSB-first) representation
	bool refl;      // refin == refout
	bool inv;       // library convention: seed and result are bit-inverted
	uint64_t check; // value for "123456789" under the library's calling convention with `check_seed`
	uint64_t check_seed;
	bool has_check;
};

inline uint64_t mask(int w) { return w == 64 ? ~0ull : ((1ull << w) - 1); }
inline uint64_t reflect(uint64_t v, int w) {
	uint64_t r = 0;
	for (int i = 0; i < w; i++) if (v & (1ull << i)) r |= 1ull << (w - 1 - i);
	return r;
}

// pure bit-serial
inline uint64_t crc_bits(const Model &m, uint64_t seed, const uint8_t *p, size_t n) {
	uint64_t M = mask(m.width), s = (m.inv ? ~seed : seed) & M;
	if (!m.refl) {
		uint64_t top = 1ull << (m.width - 1);
		for (size_t i = 0; i < n; i++) {
			s ^= (uint64_t) p[i] << (m.width - 8);
			for (int b = 0; b < 8; b++) s = ((s & top) ? ((s << 1) ^ m.poly) : (s << 1)) & M;
		}
	} else {
		uint64_t pr = reflect(m.poly, m.width);
		for (size_t i = 0; i < n; i++) {
			s ^= p[i];
			for (int b = 0; b < 8; b++) s = (s & 1) ? ((s >> 1) ^ pr) : (s >> 1);
		}
	}
	return (m.inv ? ~s : s) & M;
}

struct Fast {
	Model m;
	uint64_t tab[256];
	Fast(const Model &mm) : m(mm) {
		Model raw = m;
		raw.inv = false;
		for (int b = 0; b < 256; b++) {
			uint8_t byte = (uint8_t) b;
			tab[b] = crc_bits(raw, 0, &byte, 1); // state 0 absorbing one byte
		}
	}
	uint64_t run(uint64_t seed, const uint8_t *p, size_t n) const {
		uint64_t M = mask(m.width), s = (m.inv ? ~seed : seed) & M;
		if (!m.refl)
			for (size_t i = 0; i < n; i++) s = ((s << 8) ^ tab[((s >> (m.width - 8)) ^ p[i]) & 0xFF]) & M;
		else
			for (size_t i = 0; i < n; i++) s = (s >> 8) ^ tab[(s ^ p[i]) & 0xFF];
		return (m.inv ? ~s : s) & M;
	}
};

enum { T10DIF, IEEE, GZIP, ISCSI, ECMA_REFL, ECMA_NORM, ISO_REFL, ISO_NORM, JONES_REFL, JONES_NORM, ROCKSOFT_REFL, ROCKSOFT_NORM, N_MODELS };

inline const Model &model(int i) {
	static const Model M[N_MODELS] = {
		{"crc16_t10dif", 16, 0x8BB7, false, false, 0xD0DB, 0, true},                       // CRC-16/T10-DIF
		{"crc32_ieee", 32, 0x04C11DB7, false, true, 0xFC891918, 0, true},                  // CRC-32/BZIP2
		{"crc32_gzip_refl", 32, 0x04C11DB7, true, true, 0xCBF43926, 0, true},              // CRC-32/ISO-HDLC
		{"crc32_iscsi", 32, 0x1EDC6F41, true, false, 0xE3069283 ^ 0xFFFFFFFFull, 0xFFFFFFFFull, true}, // CRC-32C: ~f(~0)
		{"crc64_ecma_refl", 64, 0x42F0E1EBA9EA3693ull, true, true, 0x995DC9BBDF1939FAull, 0, true},   // CRC-64/XZ
		{"crc64_ecma_norm", 64, 0x42F0E1EBA9EA3693ull, false, true, 0x62EC59E3F1A4F00Aull, 0, true},  // CRC-64/WE
		{"crc64_iso_refl", 64, 0x000000000000001Bull, true, true, 0xB90956C775A41001ull, 0, true},    // CRC-64/GO-ISO
		{"crc64_iso_norm", 64, 0x000000000000001Bull, false, true, 0, 0, false},
		{"crc64_jones_refl", 64, 0xAD93D23594C935A9ull, true, true, 0, 0, false},
		{"crc64_jones_norm", 64, 0xAD93D23594C935A9ull, false, true, 0, 0, false},
		{"crc64_rocksoft_refl", 64, 0xAD93D23594C93659ull, true, true, 0xAE8B14860A799888ull, 0, true}, // CRC-64/NVME
		{"crc64_rocksoft_norm", 64, 0xAD93D23594C93659ull, false, true, 0, 0, false},
	};
	return M[i];
}
inline const Fast &fast(int i) {
	static Fast *F[N_MODELS];
	if (!F[i]) F[i] = new Fast(model(i));
	return *F[i];
}

// start-up self test: published check values + table form == bit-serial form
inline void self_test() {
	const uint8_t *chk = (const uint8_t *) "123456789";
	uint8_t rnd[777];
	for (size_t i = 0; i < sizeof rnd; i++) rnd[i] = (uint8_t) (pbt::mix64(i) >> 17);
	for (int i = 0; i < N_MODELS; i++) {
		const Model &m = model(i);
		if (m.has_check) {
			uint64_t v = crc_bits(m, m.check_seed, chk, 9);
			if (v != m.check) throw pbt::OracleBug(pbt::fmt("reference %s does not reproduce the published check value: %llx vs %llx", m.name, (unsigned long long) v, (unsigned long long) m.check));
		}
		for (uint64_t seed : {0ull, ~0ull, 0x123456789abcdef1ull})
			for (size_t n : {(size_t) 0, (size_t) 1, (size_t) 9, sizeof rnd})
				if (crc_bits(m, seed & mask(m.width), rnd, n) != fast(i).run(seed & mask(m.width), rnd, n))
					throw pbt::OracleBug(std::string("reference table form disagrees with bit-serial form for ") + m.name);
	}
}

// RFC 1950: s1 = 1 + sum bytes mod 65521, s2 = sum of s1 values mod 65521
inline uint32_t adler(uint32_t seed, const uint8_t *p, size_t n) {
	uint64_t a = seed & 0xFFFF, b = seed >> 16;
	a %= 65521; b %= 65521;
	size_t i = 0;
	while (i < n) {
		size_t chunk = n - i < 3800 ? n - i : 3800; // 64-bit accumulators cannot overflow; reduce often anyway
		for (size_t k = 0; k < chunk; k++) { a += p[i + k]; b += a; }
		a %= 65521; b %= 65521;
		i += chunk;
	}
	return (uint32_t) ((b << 16) | a);
}

} // namespace refcrc
