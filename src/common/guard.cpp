#include "guard.h"
#include <signal.h>
#include <sys/mman.h>
#include <unistd.h>
#include <dlfcn.h>
#include <ucontext.h>
#include <cstdio>
#include <cstdlib>
#include <cstring>

namespace guard {

static const size_t PAGE = 4096;
static const size_t ARENA = 48ull << 30;
static uint8_t *g_base;
static size_t g_used; // bytes handed out so far (page multiple)
static std::vector<Buf> g_bufs;
static const uint8_t CANARY = 0xC7;

unsigned g_poison_mask = 0x100;
thread_local sigjmp_buf tl_jb;
thread_local volatile int tl_armed;
thread_local Fault tl_fault;

static void handler(int sig, siginfo_t *si, void *uc_) {
	ucontext_t *uc = (ucontext_t *) uc_;
	void *rip = (void *) uc->uc_mcontext.gregs[REG_RIP];
	if (tl_armed) {
		tl_fault.faulted = true;
		tl_fault.sig = sig;
		tl_fault.addr = si->si_addr;
		tl_fault.rip = rip;
		siglongjmp(tl_jb, 1);
	}
	char buf[256];
	int n = snprintf(buf, sizeof buf, "HARNESS-CRASH sig=%d addr=%p rip=%p\n", sig, si->si_addr, rip);
	if (write(2, buf, n)) {}
	_exit(4);
}

void thread_init() {
	static thread_local bool done = false;
	if (done) return;
	done = true;
	stack_t ss;
	ss.ss_size = 1 << 16;
	ss.ss_sp = mmap(0, ss.ss_size, PROT_READ | PROT_WRITE, MAP_PRIVATE | MAP_ANONYMOUS, -1, 0);
	ss.ss_flags = 0;
	sigaltstack(&ss, 0);
}

void init() {
	if (g_base) return;
	void *hint = nullptr;
	if (getenv("VERIF_ARENA_HINT")) hint = (void *) strtoull(getenv("VERIF_ARENA_HINT"), 0, 16); // experiments on address dependence
	void *p = mmap(hint, ARENA, PROT_NONE, MAP_PRIVATE | MAP_ANONYMOUS | MAP_NORESERVE | (hint ? MAP_FIXED_NOREPLACE : 0), -1, 0);
	if (p == MAP_FAILED) { perror("guard arena mmap"); _exit(5); }
	g_base = (uint8_t *) p;
	g_used = 0;
	{
		// which register files may be touched on this host (OS-enabled state)
		unsigned a, b, c, d, m = 0;
		__asm__ volatile("cpuid" : "=a"(a), "=b"(b), "=c"(c), "=d"(d) : "a"(1), "c"(0));
		if ((c & (1u << 27)) && (c & (1u << 28))) {
			unsigned lo, hi;
			__asm__ volatile("xgetbv" : "=a"(lo), "=d"(hi) : "c"(0));
			if ((lo & 6) == 6) m |= 1;
			__asm__ volatile("cpuid" : "=a"(a), "=b"(b), "=c"(c), "=d"(d) : "a"(7), "c"(0));
			if ((m & 1) && (b & (1u << 16)) && (lo & 0xE0) == 0xE0) m |= 2;
		}
		g_poison_mask = getenv("VERIF_NO_POISON") ? 0x100 : m;
	}
	thread_init();
	struct sigaction sa;
	memset(&sa, 0, sizeof sa);
	sa.sa_sigaction = handler;
	sa.sa_flags = SA_SIGINFO | SA_ONSTACK | SA_NODEFER;
	sigemptyset(&sa.sa_mask);
	int sigs[] = {SIGSEGV, SIGBUS, SIGILL, SIGFPE, SIGALRM}; // SIGALRM: watchdog of call_timed()
	for (int s : sigs) sigaction(s, &sa, 0);
}

Buf alloc(size_t len, Place pl, const char *name, size_t align_mod, size_t align_off) {
	if (!g_base) init();
	if (align_mod == 0) align_mod = 1;
	align_off &= align_mod - 1;
	// data pages needed: len + up to align_mod-1 slack
	size_t need = len + align_mod;
	size_t dpages = (need + PAGE - 1) / PAGE;
	if (dpages == 0) dpages = 1;
	size_t total = (dpages + 2) * PAGE;
	if (g_used + total > ARENA) { fprintf(stderr, "guard arena exhausted\n"); _exit(5); }
	uint8_t *slot = g_base + g_used;
	g_used += total - PAGE; // trailing guard is shared with the next slot's leading guard
	uint8_t *lo = slot + PAGE, *hi = lo + dpages * PAGE;
	if (mprotect(lo, dpages * PAGE, PROT_READ | PROT_WRITE) != 0) { perror("mprotect rw"); _exit(5); }
	Buf b;
	b.len = len;
	b.data_lo = lo;
	b.data_hi = hi;
	b.name = name;
	b.id = (int) g_bufs.size();
	if (pl == END) {
		uintptr_t p = (uintptr_t) hi - len;
		size_t cur = p & (align_mod - 1);
		size_t slack = (cur + align_mod - align_off) & (align_mod - 1);
		p -= slack;
		b.p = (uint8_t *) p;
	} else {
		uintptr_t p = (uintptr_t) lo;
		size_t cur = p & (align_mod - 1);
		size_t adj = (align_off + align_mod - cur) & (align_mod - 1);
		b.p = (uint8_t *) (p + adj);
	}
	// canary everything accessible, then a deterministic fill of the user range
	memset(lo, CANARY, dpages * PAGE);
	memset(b.p, 0xA5, len);
	g_bufs.push_back(b);
	return b;
}

Buf alloc_copy(const void *src, size_t len, Place pl, const char *name, size_t align_mod, size_t align_off) {
	Buf b = alloc(len, pl, name, align_mod, align_off);
	if (len) memcpy(b.p, src, len);
	return b;
}

bool canaries_ok(const Buf &b) {
	for (uint8_t *q = b.data_lo; q < b.p; q++) if (*q != CANARY) return false;
	for (uint8_t *q = b.p + b.len; q < b.data_hi; q++) if (*q != CANARY) return false;
	return true;
}

void set_readonly(const Buf &b) { mprotect(b.data_lo, b.data_hi - b.data_lo, PROT_READ); }
void set_readwrite(const Buf &b) { mprotect(b.data_lo, b.data_hi - b.data_lo, PROT_READ | PROT_WRITE); }
void quarantine(const Buf &b) { mprotect(b.data_lo, b.data_hi - b.data_lo, PROT_NONE); }

void retire(const Buf &b) {
	mprotect(b.data_lo, b.data_hi - b.data_lo, PROT_NONE);
	madvise(b.data_lo, b.data_hi - b.data_lo, MADV_DONTNEED);
}

void release_all() {
	if (!g_base || g_used == 0) { g_bufs.clear(); return; }
	size_t n = g_used + PAGE;
	mprotect(g_base, n, PROT_NONE);
	if (n > (64u << 20)) madvise(g_base, n, MADV_DONTNEED);
	g_used = 0;
	g_bufs.clear();
}

size_t live_buffers() { return g_bufs.size(); }

// Library symbols are hidden (mk_global ... internal), so dladdr cannot see them; the harness is linked
// -no-pie and the symbol table of the executable is read once with nm.
static std::vector<std::pair<uintptr_t, std::string>> *g_syms;
static void load_syms() {
	g_syms = new std::vector<std::pair<uintptr_t, std::string>>();
	char exe[512];
	ssize_t n = readlink("/proc/self/exe", exe, sizeof exe - 1);
	if (n <= 0) return;
	exe[n] = 0;
	std::string cmd = std::string("nm -n --defined-only '") + exe + "' 2>/dev/null";
	FILE *f = popen(cmd.c_str(), "r");
	if (!f) return;
	char line[1024];
	while (fgets(line, sizeof line, f)) {
		unsigned long a;
		char ty;
		char name[800];
		if (sscanf(line, "%lx %c %799s", &a, &ty, name) == 3 && (ty == 'T' || ty == 't' || ty == 'W' || ty == 'w'))
			g_syms->push_back({(uintptr_t) a, name});
	}
	pclose(f);
}
std::string symbolize(void *addr) {
	if (!g_syms) load_syms();
	uintptr_t a = (uintptr_t) addr;
	char buf[900];
	size_t lo = 0, hi = g_syms->size();
	while (lo < hi) {
		size_t mid = (lo + hi) / 2;
		if ((*g_syms)[mid].first <= a) lo = mid + 1; else hi = mid;
	}
	if (lo > 0 && a - (*g_syms)[lo - 1].first < (1u << 20)) {
		size_t off = a - (*g_syms)[lo - 1].first;
		if (off) snprintf(buf, sizeof buf, "%s+0x%zx", (*g_syms)[lo - 1].second.c_str(), off);
		else snprintf(buf, sizeof buf, "%s", (*g_syms)[lo - 1].second.c_str());
		return buf;
	}
	Dl_info di;
	if (dladdr(addr, &di) && di.dli_sname) {
		snprintf(buf, sizeof buf, "%s+0x%zx", di.dli_sname, (size_t) ((uint8_t *) addr - (uint8_t *) di.dli_saddr));
		return buf;
	}
	snprintf(buf, sizeof buf, "%p", addr);
	return buf;
}

std::string Fault::describe() const {
	char buf[512];
	if (sig == SIGALRM) { snprintf(buf, sizeof buf, "the call did not return within the watchdog time (interrupted at rip=%s)", symbolize(rip).c_str()); return buf; }
	std::string where = "outside arena";
	uint8_t *a = (uint8_t *) addr;
	if (g_base && a >= g_base && a < g_base + ARENA) {
		where = "arena (unallocated/quarantined)";
		for (auto &b : g_bufs) {
			if (a >= b.data_lo - PAGE && a < b.data_lo) { where = std::string("guard page BEFORE buffer '") + b.name + "'"; break; }
			if (a >= b.data_hi && a < b.data_hi + PAGE) {
				where = std::string("guard page AFTER buffer '") + b.name + "'";
				snprintf(buf, sizeof buf, " (+%zd past end of %zu-byte buffer)", (ssize_t) (a - (b.p + b.len)), b.len);
				where += buf;
				break;
			}
			if (a >= b.data_lo && a < b.data_hi) { where = std::string("inside protected buffer '") + b.name + "'"; break; }
		}
	}
	snprintf(buf, sizeof buf, "signal %d at rip=%s addr=%p: ", sig, symbolize(rip).c_str(), addr);
	return std::string(buf) + where;
}

} // namespace guard
