// Inputs are recipes, not byte vectors: a few generated segments expanded by a
// deterministic PRNG whose seed is itself generated.
#pragma once
#include "pbt.h"
#include <vector>
#include <algorithm>
#include <string>

namespace dg {

struct Seg { int kind; size_t len; uint64_t seed; size_t period; size_t back; };
static const char *KIND[] = {"random", "zeros", "ff", "const", "text", "periodic", "copy-back", "sawtooth", "lowent", "adler-a-zero", "zipf+rare-far-copies"};

inline void expand(const std::vector<Seg> &segs, std::vector<uint8_t> &d) {
	d.clear();
	for (const Seg &s : segs) {
		size_t base = d.size();
		if (s.kind == 9) {
			// as few bytes as needed to bring the low half of the running Adler-32 (1 + byte sum mod 65521) to exactly 0:
			// the one value where "+1 / -1 then reduce" conversions between Adler conventions differ from the plain formula
			uint64_t sum = 1;
			for (uint8_t x : d) sum += x;
			uint32_t need = (uint32_t) ((65521 - sum % 65521) % 65521);
			while (need) { uint8_t v = need > 255 ? 255 : (uint8_t) need; d.push_back(v); need -= v; }
			continue;
		}
		if (s.kind == 10) {
			// geometric byte-value frequencies (a few very common values, a tail of rare ones) with rare copies of rare lengths from 16..32 KiB back:
			// the per-block Huffman codes of all three alphabets get long, single tokens reach 40..48 bits
			for (size_t i = 0; i < s.len;) {
				uint64_t h = pbt::mix64(s.seed + i * 0x9E37);
				size_t pos = base + i;
				if (pos > 16400 && h % 1500 == 0) {
					// a burst of 1..8 consecutive copies (a whole group of tokens with long codes and 5 + 13 extra bits)
					int burst = 1 + (int) ((h >> 50) % 8);
					for (int b = 0; b < burst && i < s.len; b++) {
						uint64_t g = pbt::mix64(h + b * 0x51);
						size_t p2 = base + i;
						size_t dist = 16385 + (g >> 12) % std::min<size_t>(p2 - 16385 + 1, 16384);
						size_t n = (g >> 40) % 3 == 0 ? 3 + (g >> 32) % 30 : 35 + (g >> 32) % 216;
						for (size_t k = 0; k < n && i < s.len; k++, i++) d.push_back(d[base + i - dist]);
					}
					continue;
				}
				if (s.seed & 1) { // text-like base: plenty of short near matches, so that the far distances and long lengths stay rare symbols
					static const char *W[] = {"the ", "quick ", "brown ", "fox ", "jumps ", "over ", "lazy ", "dog. ", "and ", "then ", "again ", "it ", "was ", "not ", "quite ", "so, "};
					const char *w = W[(h >> 20) % 16];
					for (const char *q = w; *q && i < s.len; q++, i++) d.push_back((uint8_t) *q);
					if ((h >> 30) % 5 == 0 && i < s.len) { d.push_back((uint8_t) (h >> 33)); i++; }
					continue;
				}
				int rank = __builtin_ctzll(h | (1ull << 40)) ; // P(rank = r) = 2^-(r+1)
				d.push_back((uint8_t) (pbt::mix64(s.seed + 77 * rank) >> 13));
				i++;
			}
			continue;
		}
		for (size_t i = 0; i < s.len; i++) {
			uint8_t v;
			switch (s.kind) {
			case 0: v = (uint8_t) (pbt::mix64(s.seed + (i >> 3)) >> ((i & 7) * 8)); break;
			case 1: v = 0; break;
			case 2: v = 0xFF; break;
			case 3: v = (uint8_t) s.seed; break;
			case 4: v = (uint8_t) ("the quick brown fox jumps over the lazy dog. "[(pbt::mix64(s.seed + i / 7) + i) % 45]); break;
			case 5: v = (uint8_t) (pbt::mix64(s.seed + (i % (s.period ? s.period : 1))) >> 5); break;
			case 6: { size_t pos = base + i; v = pos >= s.back && s.back ? d[pos - s.back] : (uint8_t) (pbt::mix64(s.seed + i) >> 9); break; }
			case 7: v = (uint8_t) (i + s.seed); break;
			default: v = (uint8_t) ((pbt::mix64(s.seed + i) >> 20) & 3); break;
			}
			d.push_back(v);
		}
	}
}

// size classes (by `cls`): 0 empty, 1 tiny 1..16, 2 small <=300, 3 medium <=6000, 4 around 65535, 5 big incompressible > 64 KiB (stored split),
// 6 window wrap (> 2*32 KiB + look-ahead) with long-range repeats
inline void gen(pbt::Tape &t, std::vector<Seg> &segs, size_t cap, int *cls_out = nullptr, int force_cls = -1) {
	segs.clear();
	int cls = force_cls >= 0 ? force_cls : (int) t.pick<uint32_t>({2, 0, 1, 3, 2, 3, 4, 5, 6, 3, 2});
	if (cls_out) *cls_out = cls;
	auto seg = [&](int kind, size_t len) {
		Seg s{kind, len, t.bits64(), (size_t) t.range(1, 300), 0};
		if (kind == 6) {
			static const uint32_t BACKS[] = {1, 2, 3, 255, 256, 257, 258, 4095, 4096, 8191, 8192, 8193, 32767, 32768, 32769, 65535, 65536};
			s.back = t.coin() ? BACKS[t.range(0, 16)] : (size_t) t.spread(1, 70000);
		}
		segs.push_back(s);
	};
	size_t total = 0;
	switch (cls) {
	case 0: break;
	case 1: seg((int) t.range(0, 8), (size_t) t.range(1, 16)); break;
	case 2: { int n = (int) t.range(1, 3); for (int i = 0; i < n; i++) seg((int) t.range(0, 8), (size_t) t.range(1, 120)); break; }
	case 3: { int n = (int) t.range(1, 4); for (int i = 0; i < n; i++) seg((int) t.range(0, 8), (size_t) t.spread(1, 2500)); break; }
	case 4: seg(0, (size_t) t.range(65520, 65550)); if (t.coin()) seg((int) t.range(0, 8), (size_t) t.range(1, 40)); break;
	case 5: seg(0, (size_t) t.range(65536 + 1, 140000)); if (t.coin()) seg((int) t.range(1, 8), (size_t) t.range(1, 3000)); break;
	default: {
		// >= 2*32 KiB + 288 so the internal window wraps; repeats at long range
		seg((int) t.pick<uint32_t>({4, 0, 5, 8, 10, 10}), (size_t) t.range(20000, 40000));
		seg(6, (size_t) t.range(30000, 50000));
		seg((int) t.range(0, 8), (size_t) t.range(1, 20000));
		if (t.coin()) seg(6, (size_t) t.range(1000, 30000));
		break;
	}
	}
	// leading run of >= 8 identical bytes sometimes (constant-block fast path of the stateless compressor)
	// ... and sometimes a run of >= 4 KiB of 0x00/0xFF *followed by other data* (MIN_REPEAT_LEN: the fast path then covers only part of the input)
	if (cls >= 2 && t.range(0, 4) == 0) {
		uint32_t r = t.raw();
		size_t run = (r & 3) == 3 ? 4090 + (size_t) ((r >> 2) % 5000) : 8 + (size_t) ((r >> 2) % 393);
		segs.insert(segs.begin(), Seg{t.coin() ? 1 : 2, run, 0, 1, 0});
	}
	for (auto &s : segs) total += s.len;
	while (total > cap && !segs.empty()) { total -= segs.back().len; segs.pop_back(); }
	if (cls >= 1 && !segs.empty() && t.range(0, 5) == 0) segs.push_back(Seg{9, 0, 0, 1, 0}); // up to 257 bytes beyond cap
	// one medium or large input in eight consists of skewed data with rare far copies only
	if (cls >= 3 && cap >= 60000 && t.range(0, 7) == 0) { segs.clear(); segs.push_back(Seg{10, (size_t) t.range(20000, std::min<size_t>(cap, 120000)), t.bits64(), 1, 0}); }
}

inline std::string describe(const std::vector<Seg> &segs) {
	std::string o = "[";
	for (size_t i = 0; i < segs.size(); i++) {
		o += pbt::fmt("%s{\"kind\":\"%s\",\"len\":%zu", i ? "," : "", KIND[segs[i].kind], segs[i].len);
		if (segs[i].kind == 6) o += pbt::fmt(",\"back\":%zu", segs[i].back);
		if (segs[i].kind == 5) o += pbt::fmt(",\"period\":%zu", segs[i].period);
		o += "}";
	}
	return o + "]";
}
inline uint64_t fingerprint(const std::vector<Seg> &segs) {
	uint64_t h = 7;
	for (auto &s : segs) h = pbt::mix64(h ^ pbt::mix64(s.kind * 1000003ull + s.len) ^ s.seed ^ (s.back << 20) ^ (s.period << 40));
	return h;
}

} // namespace dg
