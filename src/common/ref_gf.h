// Independent GF(2^8) arithmetic, polynomial x^8+x^4+x^3+x^2+1 (0x11D),
// written from the definition (carry-less multiply + reduction); no tables
// shared with ISA-L.
#pragma once
#include <cstdint>
#include <vector>

namespace refgf {

inline uint8_t mul_slow(uint8_t a, uint8_t b) {
	unsigned p = 0, aa = a;
	for (int i = 0; i < 8; i++)
		if (b & (1u << i)) p ^= aa << i;   // carry-less product, up to 15 bits
	for (int i = 14; i >= 8; i--)
		if (p & (1u << i)) p ^= 0x11Du << (i - 8);
	return (uint8_t) p;
}

struct Tables {
	uint8_t m[256][256];
	uint8_t inv[256];
	Tables() {
		for (int a = 0; a < 256; a++)
			for (int b = 0; b < 256; b++) m[a][b] = mul_slow((uint8_t) a, (uint8_t) b);
		inv[0] = 0;
		for (int a = 1; a < 256; a++)
			for (int b = 1; b < 256; b++)
				if (m[a][b] == 1) { inv[a] = (uint8_t) b; break; }
	}
};
inline const Tables &T() { static Tables t; return t; }
inline uint8_t mul(uint8_t a, uint8_t b) { return T().m[a][b]; }
inline uint8_t inv(uint8_t a) { return T().inv[a]; }
inline uint8_t pow2(unsigned e) { uint8_t r = 1; while (e--) r = mul(r, 2); return r; }

// dest[r][i] = XOR_j a[r*k+j] * src[j][i]
inline void encode(int len, int k, int rows, const uint8_t *a, uint8_t *const *src, uint8_t **dest) {
	for (int r = 0; r < rows; r++)
		for (int i = 0; i < len; i++) {
			uint8_t s = 0;
			for (int j = 0; j < k; j++) s ^= T().m[a[r * k + j]][src[j][i]];
			dest[r][i] = s;
		}
}

// rank via Gaussian elimination on a copy
inline int rank(std::vector<uint8_t> m, int n) {
	int rk = 0;
	for (int c = 0; c < n && rk < n; c++) {
		int p = -1;
		for (int r = rk; r < n; r++) if (m[r * n + c]) { p = r; break; }
		if (p < 0) continue;
		if (p != rk) for (int j = 0; j < n; j++) std::swap(m[p * n + j], m[rk * n + j]);
		uint8_t iv = inv(m[rk * n + c]);
		for (int j = 0; j < n; j++) m[rk * n + j] = mul(m[rk * n + j], iv);
		for (int r = 0; r < n; r++) {
			if (r == rk) continue;
			uint8_t f = m[r * n + c];
			if (!f) continue;
			for (int j = 0; j < n; j++) m[r * n + j] ^= mul(f, m[rk * n + j]);
		}
		rk++;
	}
	return rk;
}

inline std::vector<uint8_t> matmul(const std::vector<uint8_t> &a, const std::vector<uint8_t> &b, int n) {
	std::vector<uint8_t> c(n * n, 0);
	for (int i = 0; i < n; i++)
		for (int k = 0; k < n; k++) {
			uint8_t f = a[i * n + k];
			if (!f) continue;
			for (int j = 0; j < n; j++) c[i * n + j] ^= mul(f, b[k * n + j]);
		}
	return c;
}

// software model of GF2P8AFFINEQB for one byte: matrix qword A, input x, imm8 0
inline uint8_t affine(uint64_t A, uint8_t x) {
	uint8_t r = 0;
	for (int i = 0; i < 8; i++) {
		uint8_t row = (uint8_t) (A >> (8 * (7 - i)));
		uint8_t v = row & x;
		v ^= v >> 4; v ^= v >> 2; v ^= v >> 1;
		r |= (uint8_t) ((v & 1) << i);
	}
	return r;
}

} // namespace refgf
