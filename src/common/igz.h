// Stateful drivers for the igzip codec.  The stream struct, the level buffer,
// every input chunk and every output chunk live in their own guard-paged
// mapping; consumed input is retired (PROT_NONE + discarded) as soon as the
// call returns and any unconsumed remainder is relocated to a fresh mapping,
// so a later dereference of consumed input faults.  After every call the
// call-level invariants shared by C05/C06/C07/C10 are asserted.
#pragma once
#include "pbt.h"
#include "guard.h"
#include <zlib.h>
#include <vector>
#include <string>
extern "C" {
#include "igzip_lib.h"
}

namespace igz {

inline uint32_t lvl_buf_size(int level, int which) { // which: 0 MIN 1 SMALL 2 MEDIUM 3 LARGE 4 EXTRA_LARGE
	static const uint32_t T[4][5] = {
		{ISAL_DEF_LVL0_MIN, ISAL_DEF_LVL0_SMALL, ISAL_DEF_LVL0_MEDIUM, ISAL_DEF_LVL0_LARGE, ISAL_DEF_LVL0_EXTRA_LARGE},
		{ISAL_DEF_LVL1_MIN, ISAL_DEF_LVL1_SMALL, ISAL_DEF_LVL1_MEDIUM, ISAL_DEF_LVL1_LARGE, ISAL_DEF_LVL1_EXTRA_LARGE},
		{ISAL_DEF_LVL2_MIN, ISAL_DEF_LVL2_SMALL, ISAL_DEF_LVL2_MEDIUM, ISAL_DEF_LVL2_LARGE, ISAL_DEF_LVL2_EXTRA_LARGE},
		{ISAL_DEF_LVL3_MIN, ISAL_DEF_LVL3_SMALL, ISAL_DEF_LVL3_MEDIUM, ISAL_DEF_LVL3_LARGE, ISAL_DEF_LVL3_EXTRA_LARGE}};
	return T[level][which];
}

// wrapper sizes as stated by C10
inline void wrapper_sizes(int gzip_flag, size_t &hdr, size_t &trl) {
	switch (gzip_flag) {
	case IGZIP_GZIP: hdr = 10; trl = 8; break;
	case IGZIP_GZIP_NO_HDR: hdr = 0; trl = 8; break;
	case IGZIP_ZLIB: hdr = 2; trl = 4; break;
	case IGZIP_ZLIB_NO_HDR: hdr = 0; trl = 4; break;
	default: hdr = 0; trl = 0;
	}
}

// documented worst case of one-shot compression: input + 5 bytes per started 65535-byte stored block (at least one) + wrapper (C10)
inline size_t stateless_bound(size_t len, int gzip_flag) {
	size_t hdr, trl;
	wrapper_sizes(gzip_flag, hdr, trl);
	size_t blocks = (len + 65534) / 65535;
	if (blocks < 1) blocks = 1;
	return len + 5 * blocks + hdr + trl;
}

struct DefOpts {
	int level = 0, gzip_flag = 0, hist_bits = 0;
	int table = IGZIP_HUFFTABLE_DEFAULT;      // DEFAULT / STATIC / CUSTOM
	struct isal_hufftables *custom = nullptr; // for CUSTOM
	uint32_t lbuf_size = 0;
	bool lbuf_null = false;
	bool stateless = false;
	uint8_t prefill = 0;     // garbage byte the context / level buffer are pre-filled with before init (C15)
	bool do_prefill = false;
};

struct CallInfo {
	int rc = 0;
	size_t consumed = 0, produced = 0;
	bool faulted = false;
	std::string problem; // invariant violation text ("" = fine)
};

class Deflater {
public:
	guard::Buf sbuf, lbuf, inb, outb;
	struct isal_zstream *s = nullptr;
	DefOpts o;
	std::vector<uint8_t> out;       // everything produced so far
	std::vector<uint8_t> pending;   // input handed to the codec but not yet consumed
	size_t total_fed = 0, total_consumed = 0;
	uint64_t calls = 0;
	bool have_in = false;
	guard::Place in_place = guard::END; // START: the chunk begins right after an inaccessible page (catches reads before next_in)
	bool eos_announced = false;
	size_t offer_limit = 0; // != 0: the next call is offered only this many of the not yet consumed bytes (the caller re-cuts its input); one-shot

	explicit Deflater(const DefOpts &opt) : o(opt) {
		sbuf = guard::alloc(sizeof(struct isal_zstream), guard::END, "isal_zstream", 64, 0);
		s = (struct isal_zstream *) sbuf.p;
		if (o.do_prefill) memset(sbuf.p, o.prefill, sizeof(struct isal_zstream));
		if ((o.level > 0 || o.lbuf_size > 0) && !o.lbuf_null) {
			// 16-byte aligned like every malloc'ed buffer real callers pass: the library overlays a struct with 32/64-bit members
			// (and resets the hash table with wmemset), so a byte-misaligned level_buf is outside what callers do
			lbuf = guard::alloc(o.lbuf_size, guard::END, "level_buf", 16, 0);
			if (o.do_prefill) memset(lbuf.p, o.prefill, o.lbuf_size);
		}
		if (o.stateless) isal_deflate_stateless_init(s); else isal_deflate_init(s);
		apply_params();
	}
	void apply_params() {
		s->level = o.level;
		s->level_buf = o.lbuf_null ? nullptr : lbuf.p;
		s->level_buf_size = o.lbuf_null ? 0 : o.lbuf_size;
		s->gzip_flag = o.gzip_flag;
		s->hist_bits = o.hist_bits;
		if (o.table != IGZIP_HUFFTABLE_DEFAULT) isal_deflate_set_hufftables(s, o.custom, o.table);
	}

	// one library call: `add` new input bytes become available (appended to the unconsumed remainder, everything relocated
	// to a fresh exact-size read-only mapping), `out_cap` bytes of fresh output space.
	CallInfo call(const uint8_t *add, size_t add_len, size_t out_cap, int flush, bool eos) {
		CallInfo ci;
		pending.insert(pending.end(), add, add + add_len);
		total_fed += add_len;
		if (have_in) guard::retire(inb); // the previous mapping is gone: consumed input must never be touched again
		size_t offered = pending.size();
		// (not once end_of_stream has been announced: the input is then complete by the caller's own word)
		if (offer_limit && offer_limit < offered && !eos_announced) { offered = offer_limit; eos = false; } // more input follows: the end cannot be announced yet
		offer_limit = 0;
		if (eos) eos_announced = true;
		inb = guard::alloc_copy(pending.data(), offered, in_place, "input chunk");
		guard::set_readonly(inb);
		have_in = true;
		outb = guard::alloc(out_cap, guard::END, "output chunk");
		s->next_in = inb.p;
		s->avail_in = (uint32_t) offered;
		s->next_out = outb.p;
		s->avail_out = (uint32_t) out_cap;
		s->flush = (uint16_t) flush;
		s->end_of_stream = eos;
		uint32_t ti = s->total_in, to = s->total_out, ai = s->avail_in, ao = s->avail_out;
		uint8_t *ni = s->next_in, *no = s->next_out;
		int rc = 0;
		guard::Fault f = guard::call_timed([&] { rc = o.stateless ? isal_deflate_stateless(s) : isal_deflate(s); }, 120);
		calls++;
		if (getenv("VERIF_TRACE"))
			fprintf(stderr, "deflate call %llu: add=%zu avail_in=%u cap=%zu flush=%d eos=%d -> rc=%d%s consumed=%u produced=%u state=%d has_hist=%d hash_mask=%x total_in=%u b_valid=%u b_proc=%u\n", (unsigned long long) calls, add_len, ai, out_cap,
			        flush, (int) eos, rc, f.faulted ? " FAULT" : "", ai - s->avail_in, ao - s->avail_out, (int) s->internal_state.state, s->internal_state.has_hist, s->internal_state.hash_mask, s->total_in,
			        s->internal_state.b_bytes_valid, s->internal_state.b_bytes_processed);
		if (f.faulted) { ci.faulted = true; ci.problem = f.describe(); return ci; }
		ci.rc = rc;
		if (s->avail_in > ai) ci.problem = pbt::fmt("avail_in grew (%u -> %u)", ai, s->avail_in);
		else if (s->avail_out > ao) ci.problem = pbt::fmt("avail_out grew (%u -> %u)", ao, s->avail_out);
		else {
			size_t c = ai - s->avail_in, p = ao - s->avail_out;
			if ((size_t) (s->next_in - ni) != c) ci.problem = pbt::fmt("next_in advanced by %td but avail_in dropped by %zu", s->next_in - ni, c);
			else if ((size_t) (s->next_out - no) != p) ci.problem = pbt::fmt("next_out advanced by %td but avail_out dropped by %zu", s->next_out - no, p);
			else if (s->total_in - ti != c) ci.problem = pbt::fmt("total_in advanced by %u but %zu bytes were consumed", s->total_in - ti, c);
			else if (s->total_out - to != p) ci.problem = pbt::fmt("total_out advanced by %u but %zu bytes were produced", s->total_out - to, p);
			else if (!guard::canaries_ok(outb)) ci.problem = "bytes outside [next_out, next_out+avail_out) were modified";
			ci.consumed = c; ci.produced = p;
			if (ci.problem.empty()) {
				out.insert(out.end(), outb.p, outb.p + p);
				pending.erase(pending.begin(), pending.begin() + c);
				total_consumed += c;
			}
		}
		guard::retire(outb);
		return ci;
	}
	bool finished() const { return s->internal_state.state == ZSTATE_END; }
};

struct InfOpts {
	int crc_flag = ISAL_DEFLATE;
	int hist_bits = 0;
	bool stateless = false;
	const uint8_t *dict = nullptr;
	size_t dict_len = 0;
	uint8_t prefill = 0;
	bool do_prefill = false;
};

class Inflater {
public:
	guard::Buf sbuf, inb, outb;
	struct inflate_state *s = nullptr;
	InfOpts o;
	std::vector<uint8_t> out;
	std::vector<uint8_t> pending;
	size_t total_fed = 0, total_consumed = 0;
	uint64_t calls = 0;
	bool have_in = false;
	int dict_rc = 0;
	guard::Place in_place = guard::END;

	explicit Inflater(const InfOpts &opt) : o(opt) {
		sbuf = guard::alloc(sizeof(struct inflate_state), guard::END, "inflate_state", 64, 0);
		s = (struct inflate_state *) sbuf.p;
		if (o.do_prefill) memset(sbuf.p, o.prefill, sizeof(struct inflate_state));
		isal_inflate_init(s);
		s->crc_flag = o.crc_flag;
		s->hist_bits = o.hist_bits;
		if (o.dict) {
			guard::Buf d = guard::alloc_copy(o.dict, o.dict_len, guard::END, "dictionary");
			guard::set_readonly(d);
			dict_rc = isal_inflate_set_dict(s, d.p, (uint32_t) o.dict_len);
			guard::retire(d); // the dictionary is copied by the call
		}
	}

	CallInfo call(const uint8_t *add, size_t add_len, size_t out_cap) {
		CallInfo ci;
		pending.insert(pending.end(), add, add + add_len);
		total_fed += add_len;
		if (have_in) guard::retire(inb);
		inb = guard::alloc_copy(pending.data(), pending.size(), in_place, "input chunk");
		guard::set_readonly(inb);
		have_in = true;
		outb = guard::alloc(out_cap, guard::END, "output chunk");
		s->next_in = inb.p;
		s->avail_in = (uint32_t) pending.size();
		s->next_out = outb.p;
		s->avail_out = (uint32_t) out_cap;
		uint32_t to = s->total_out, ai = s->avail_in, ao = s->avail_out;
		uint8_t *ni = s->next_in, *no = s->next_out;
		int rc = 0;
		guard::Fault f = guard::call_timed([&] { rc = o.stateless ? isal_inflate_stateless(s) : isal_inflate(s); }, 120);
		calls++;
		if (getenv("VERIF_TRACE"))
			fprintf(stderr, "inflate call %llu: add=%zu avail_in=%u cap=%zu -> rc=%d%s avail_in'=%u next_in+%td avail_out'=%u next_out+%td block_state=%d read_in_length=%d tmp_in_size=%d total_out=%u\n", (unsigned long long) calls, add_len, ai,
			        out_cap, rc, f.faulted ? " FAULT" : "", s->avail_in, s->next_in - ni, s->avail_out, s->next_out - no, (int) s->block_state, s->read_in_length, (int) s->tmp_in_size, s->total_out);
		if (f.faulted) { ci.faulted = true; ci.problem = f.describe(); return ci; }
		ci.rc = rc;
		if (rc < 0 || (o.stateless && rc != 0)) {
			// after an error return (or a one-shot call that could not complete: END_INPUT / OUT_OVERFLOW) the stream is dead and no
			// listed property promises consistent input counters; what is promised is that nothing outside
			// [next_out, next_out + avail_out) was written
			if (!guard::canaries_ok(outb)) ci.problem = "bytes outside [next_out, next_out+avail_out) were modified";
			else if (s->avail_out <= ao && (size_t) (s->next_out - no) == (size_t) (ao - s->avail_out)) { ci.produced = ao - s->avail_out; out.insert(out.end(), outb.p, outb.p + ci.produced); }
			pending.clear();
			guard::retire(outb);
			return ci;
		}
		if (s->avail_in > ai) ci.problem = pbt::fmt("avail_in grew (%u -> %u)", ai, s->avail_in);
		else if (s->avail_out > ao) ci.problem = pbt::fmt("avail_out grew (%u -> %u): more than avail_out bytes written?", ao, s->avail_out);
		else {
			size_t c = ai - s->avail_in, p = ao - s->avail_out;
			if ((size_t) (s->next_in - ni) != c) ci.problem = pbt::fmt("next_in advanced by %td but avail_in dropped by %zu", s->next_in - ni, c);
			else if ((size_t) (s->next_out - no) != p) ci.problem = pbt::fmt("next_out advanced by %td but avail_out dropped by %zu", s->next_out - no, p);
			else if (s->total_out - to != p) ci.problem = pbt::fmt("total_out advanced by %u but %zu bytes were produced", s->total_out - to, p);
			else if (!guard::canaries_ok(outb)) ci.problem = "bytes outside [next_out, next_out+avail_out) were modified";
			ci.consumed = c; ci.produced = p;
			if (ci.problem.empty()) {
				out.insert(out.end(), outb.p, outb.p + p);
				pending.erase(pending.begin(), pending.begin() + c);
				total_consumed += c;
			}
		}
		guard::retire(outb);
		return ci;
	}
	bool finished() const { return s->block_state == ISAL_BLOCK_FINISH; }
	// input position reported to the caller: bytes taken minus whole bytes still held in the bit buffer
	size_t reported_pos() const { return total_consumed - (size_t) (s->read_in_length / 8); }
};

// ---- zlib as the independent codec ---------------------------------------------------------------------------------
struct ZOut { int rc = 0; std::vector<uint8_t> out; size_t consumed = 0; std::string msg; unsigned long adler = 0; };

// windowBits: -15..-9 raw, 9..15 zlib, 16+15 gzip
inline ZOut zlib_inflate(const uint8_t *in, size_t n, int wbits, size_t max_out, const uint8_t *dict = nullptr, size_t dict_len = 0, int flush = Z_FINISH) {
	ZOut r;
	z_stream z;
	memset(&z, 0, sizeof z);
	if (inflateInit2(&z, wbits) != Z_OK) { r.rc = -100; return r; }
	if (dict && wbits < 0) inflateSetDictionary(&z, dict, (uInt) dict_len);
	r.out.resize(max_out + 1);
	z.next_in = (Bytef *) in; z.avail_in = (uInt) n;
	z.next_out = r.out.data(); z.avail_out = (uInt) r.out.size();
	int rc = inflate(&z, flush);
	if (rc == Z_NEED_DICT && dict) {
		r.adler = z.adler;
		inflateSetDictionary(&z, dict, (uInt) dict_len);
		rc = inflate(&z, flush);
	}
	r.rc = rc;
	r.consumed = n - z.avail_in;
	if (z.msg) r.msg = z.msg;
	r.out.resize(z.total_out);
	inflateEnd(&z);
	return r;
}

struct ZDefOpts { int level = 6, strategy = Z_DEFAULT_STRATEGY, wbits = -15, memlevel = 8; std::vector<std::pair<size_t, int>> flushes; const uint8_t *dict = nullptr; size_t dict_len = 0; gz_header *gzh = nullptr; };
inline std::vector<uint8_t> zlib_deflate(const uint8_t *in, size_t n, const ZDefOpts &o) {
	z_stream z;
	memset(&z, 0, sizeof z);
	std::vector<uint8_t> out(n + n / 8 + 1024 + o.flushes.size() * 16 + (o.gzh ? 70000 * 3 : 0));
	if (deflateInit2(&z, o.level, Z_DEFLATED, o.wbits, o.memlevel, o.strategy) != Z_OK) return {};
	if (o.gzh) deflateSetHeader(&z, o.gzh);
	if (o.dict) deflateSetDictionary(&z, o.dict, (uInt) o.dict_len);
	z.next_out = out.data(); z.avail_out = (uInt) out.size();
	size_t pos = 0;
	for (auto &fl : o.flushes) {
		size_t upto = fl.first > n ? n : fl.first;
		if (upto < pos) continue;
		z.next_in = (Bytef *) in + pos; z.avail_in = (uInt) (upto - pos);
		deflate(&z, fl.second);
		pos = upto;
	}
	z.next_in = (Bytef *) in + pos; z.avail_in = (uInt) (n - pos);
	int rc = deflate(&z, Z_FINISH);
	size_t produced = z.total_out;
	deflateEnd(&z);
	if (rc != Z_STREAM_END) return {};
	out.resize(produced);
	return out;
}

} // namespace igz
