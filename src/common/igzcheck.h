// Shared oracles and schedule runners for the compression-side properties
// (C01, C07, C10, C11, C14, C17, C18).
#pragma once
#include "igz.h"
#include "ref_inflate.h"
#include "ref_crc.h"
#include "kern.h"

namespace igzc {

// call-size schedule derived from three generated numbers (bounded tape use)
struct Sched {
	int mode = 0;      // 0 everything at once, 1 constant size, 2 seeded random sizes in [1, param], 3 boundary-set sizes, 4 param / 20*param / rest
	uint32_t param = 0;
	uint64_t seed = 0;
	uint64_t n = 0;
	size_t next(size_t remaining_hint) {
		static const uint32_t BS[] = {1, 2, 7, 8, 9, 15, 16, 17, 31, 32, 33, 255, 256, 257, 328, 329, 4096};
		size_t v;
		switch (mode) {
		case 0: v = remaining_hint; break;
		case 1: v = param ? param : 1; break;
		case 2: v = 1 + pbt::mix64(seed + n) % (param ? param : 1); break;
		case 4: v = n == 0 ? (param ? param : 1) : n == 1 ? 20 * (size_t) (param ? param : 1) : remaining_hint; break; // a small piece, a medium one, then all the rest at once
		default: v = BS[pbt::mix64(seed + n) % 17]; break;
		}
		n++;
		return v;
	}
	std::string text() const { return pbt::fmt("%s/%u", mode == 0 ? "all" : mode == 1 ? "const" : mode == 2 ? "rand" : mode == 4 ? "small,medium,rest" : "boundary", param); }
};
inline Sched decode_sched(pbt::Tape &t, size_t total, size_t min_chunk_floor) {
	Sched s;
	s.mode = (int) t.range(0, 4);
	static const uint32_t SZ[] = {1, 2, 7, 8, 9, 15, 16, 17, 31, 32, 33, 64, 255, 256, 257, 328, 329, 1000, 4096, 32768, 65536};
	s.param = SZ[t.range(0, 20)];
	if (s.mode == 3 && min_chunk_floor > 8) s.mode = 2;
	if (s.param < min_chunk_floor) s.param = (uint32_t) min_chunk_floor;
	s.seed = t.bits64();
	(void) total;
	return s;
}

inline int zlib_wbits(int gzip_flag, int hist_bits) {
	int w = hist_bits == 0 ? 15 : (hist_bits < 9 ? 9 : hist_bits);
	switch (gzip_flag) {
	case IGZIP_GZIP: return 16 + 15;
	case IGZIP_ZLIB: return 15;
	default: return -w;
	}
}

// Independent-decoder oracle of C01: the produced bytes form one complete stream that decodes to `data`, consumed to its last byte, trailer accepted.
// Returns "" or a description.  `ri` receives the reference decoder's structure of the deflate part.
inline std::string verify_stream(const std::vector<uint8_t> &comp, const std::vector<uint8_t> &data, int gzip_flag, int hist_bits, refinf::Result *ri = nullptr,
                                 const uint8_t *dict = nullptr, size_t dict_len = 0) {
	size_t hdr, trl;
	igz::wrapper_sizes(gzip_flag, hdr, trl);
	if (comp.size() < hdr + trl) return pbt::fmt("output of %zu bytes is shorter than the wrapper (%zu+%zu)", comp.size(), hdr, trl);
	bool nohdr = gzip_flag == IGZIP_GZIP_NO_HDR || gzip_flag == IGZIP_ZLIB_NO_HDR;
	// 1. zlib
	if (!nohdr) {
		igz::ZOut z = igz::zlib_inflate(comp.data(), comp.size(), zlib_wbits(gzip_flag, hist_bits), data.size() + 64, dict, dict_len);
		if (z.rc != Z_STREAM_END) return pbt::fmt("zlib inflate (windowBits %d) returns %d (%s) after %zu of %zu bytes", zlib_wbits(gzip_flag, hist_bits), z.rc, z.msg.c_str(), z.consumed, comp.size());
		if (z.consumed != comp.size()) return pbt::fmt("zlib reaches the end of the stream after %zu of %zu bytes (trailing garbage)", z.consumed, comp.size());
		if (z.out != data) return pbt::fmt("zlib decodes %zu bytes that differ from the %zu input bytes", z.out.size(), data.size());
	} else {
		igz::ZOut z = igz::zlib_inflate(comp.data(), comp.size() - trl, zlib_wbits(IGZIP_DEFLATE, hist_bits), data.size() + 64, dict, dict_len);
		if (z.rc != Z_STREAM_END) return pbt::fmt("zlib raw inflate returns %d (%s) after %zu of %zu bytes", z.rc, z.msg.c_str(), z.consumed, comp.size() - trl);
		if (z.consumed != comp.size() - trl) return pbt::fmt("deflate data ends after %zu bytes but %zu bytes precede the %zu-byte trailer", z.consumed, comp.size() - trl, trl);
		if (z.out != data) return pbt::fmt("zlib decodes %zu bytes that differ from the %zu input bytes", z.out.size(), data.size());
	}
	// 2. reference decoder on the deflate part (strict), exact end position
	refinf::Options ro;
	ro.dict = dict; ro.dict_len = dict_len;
	ro.max_out = data.size() + 64;
	refinf::Result r = refinf::inflate(comp.data() + hdr, comp.size() - hdr - trl, ro);
	if (r.st != refinf::OK) return pbt::fmt("RFC 1951 reference decoder rejects the stream: %s at bit %llu", refinf::status_name(r.st), (unsigned long long) r.err_bit);
	if (r.out != data) return "reference decoder output differs from the input";
	if (r.end_byte() != comp.size() - hdr - trl) return pbt::fmt("final block ends at byte %zu of the deflate part, which is %zu bytes long", r.end_byte(), comp.size() - hdr - trl);
	// 3. wrapper bytes written per RFC 1952 / 1950
	const uint8_t *tp = comp.data() + comp.size() - trl;
	if (gzip_flag == IGZIP_GZIP || gzip_flag == IGZIP_GZIP_NO_HDR) {
		uint32_t crc = (uint32_t) crc32(0, data.data(), (uInt) data.size());
		uint32_t c = tp[0] | tp[1] << 8 | tp[2] << 16 | (uint32_t) tp[3] << 24, l = tp[4] | tp[5] << 8 | tp[6] << 16 | (uint32_t) tp[7] << 24;
		if (c != crc) return pbt::fmt("gzip trailer CRC32 %08x, CRC-32 of the input is %08x", c, crc);
		if (l != (uint32_t) data.size()) return pbt::fmt("gzip trailer ISIZE %u, input length %zu", l, data.size());
		if (crc != refcrc::fast(refcrc::GZIP).run(0, data.data(), data.size())) return "internal: zlib crc32 and reference disagree";
	} else if (gzip_flag == IGZIP_ZLIB || gzip_flag == IGZIP_ZLIB_NO_HDR) {
		uint32_t ad = (uint32_t) adler32(1, data.data(), (uInt) data.size());
		uint32_t a = (uint32_t) tp[0] << 24 | tp[1] << 16 | tp[2] << 8 | tp[3];
		if (a != ad) return pbt::fmt("zlib trailer Adler-32 %08x, Adler-32 of the input is %08x", a, ad);
	}
	if (gzip_flag == IGZIP_GZIP && !(comp[0] == 0x1f && comp[1] == 0x8b && comp[2] == 8)) return "gzip header magic/method wrong";
	if (gzip_flag == IGZIP_ZLIB) {
		if ((comp[0] & 15) != 8) return "zlib CM != 8";
		if (((comp[0] << 8) | comp[1]) % 31) return "zlib FCHECK wrong";
		int cinfo = comp[0] >> 4;
		int w = hist_bits == 0 ? 15 : hist_bits;
		if (cinfo > 7) return "zlib CINFO > 7";
		if (cinfo + 8 < w && r.max_dist > (1u << (cinfo + 8))) return pbt::fmt("zlib header announces a %d-bit window but a match has distance %u", cinfo + 8, r.max_dist);
	}
	if (ri) *ri = std::move(r);
	return "";
}

// Runs a streaming compression with generated call schedules.  Returns "" or a problem description; `key_suffix` names the class of problem.
struct StreamPlan {
	Sched in, out;
	int flush_mode = 0;      // 0 NO, 1 SYNC, 2 FULL, 3 seeded random per call
	uint64_t flush_seed = 0;
	bool late_eos = false;   // announce end_of_stream on a later call with no new input
	bool refill_before_drain = false; // hand over new input while earlier input is still unconsumed
	uint32_t reoffer_limit = 0;       // != 0: after a call that filled its output chunk, the next call offers only this many bytes of the remaining input (at most 64 times per stream)
};
inline StreamPlan decode_plan(pbt::Tape &t, size_t len) {
	StreamPlan p;
	size_t floor_in = len / 1500 + 1, floor_out = len / 1500 + 1;
	p.in = decode_sched(t, len, floor_in);
	p.out = decode_sched(t, len, floor_out);
	p.flush_mode = (int) t.pick<uint32_t>({0, 1, 2, 3, 0});
	p.flush_seed = t.bits64();
	p.late_eos = t.coin();
	p.refill_before_drain = t.coin();
	{ uint32_t r = t.raw(); p.reoffer_limit = (r & 3) ? 0 : (uint32_t) "\x01\x02\x03\x08\x09\x40"[(r >> 2) % 6]; }
	return p;
}

inline std::string run_stream(igz::Deflater &d, const std::vector<uint8_t> &data, StreamPlan &p, std::string &key_suffix, uint64_t *ncalls = nullptr) {
	size_t pos = 0, len = data.size();
	uint64_t bound = 64 + 8 * (len / (p.in.mode == 0 ? len + 1 : (p.in.param ? p.in.param : 1)) + len / (p.out.param ? p.out.param : 1)) + len / 2 + 4096;
	int noprog = 0;
	std::vector<uint8_t> snap;
	bool eos_sent = false;
	int reoffers = 0;
	bool prev_full = false;
	while (!d.finished()) {
		size_t add = 0;
		if (pos < len && (d.pending.empty() || p.refill_before_drain)) {
			add = p.in.next(len - pos);
			if (add > len - pos) add = len - pos;
		}
		bool eos = pos + add >= len;
		if (eos && p.late_eos && !eos_sent && add > 0) eos = false; // the announcement comes on a later call with avail_in == 0 new bytes
		size_t cap = p.out.next(len + 1024);
		if (p.out.mode == 0) cap = len + len / 8 + 1024;
		int flush = p.flush_mode < 3 ? p.flush_mode : (int) (pbt::mix64(p.flush_seed + d.calls) % 3);
		// a caller that, whenever a call stopped because the output chunk was full, hands over fresh output space but only the next few bytes of its input
		if (p.reoffer_limit && prev_full && d.pending.size() + add > p.reoffer_limit && reoffers < 64 && !d.eos_announced) { d.offer_limit = p.reoffer_limit; reoffers++; eos = false; }
		if (eos) eos_sent = true;
		igz::CallInfo ci = d.call(data.data() + pos, add, cap, flush, eos);
		pos += add;
		if (ci.faulted) { key_suffix = "fault"; return "isal_deflate: " + ci.problem; }
		if (!ci.problem.empty()) { key_suffix = "counters"; return "isal_deflate call " + std::to_string(d.calls) + ": " + ci.problem; }
		if (ci.rc != COMP_OK) { key_suffix = "rc"; return pbt::fmt("isal_deflate returned %d on call %llu (level %d flush %d)", ci.rc, (unsigned long long) d.calls, d.o.level, flush); }
		prev_full = cap > 0 && ci.produced == cap;
		// progress: a call that had input and output space (or end-of-stream and output space) and changed nothing at all twice in a row is a provable livelock
		bool could = (d.pending.size() + ci.consumed > 0 && cap > 0) || (eos && cap > 0);
		if (could && ci.consumed == 0 && ci.produced == 0 && !d.finished()) {
			std::vector<uint8_t> now((uint8_t *) d.s, (uint8_t *) d.s + sizeof(*d.s));
			memset(now.data() + offsetof(struct isal_zstream, next_in), 0, sizeof(void *));
			memset(now.data() + offsetof(struct isal_zstream, next_out), 0, sizeof(void *));
			if (++noprog >= 2 && now == snap && p.out.mode != 2 && p.out.mode != 3) { key_suffix = "livelock"; return pbt::fmt("no progress and no state change in two identical consecutive calls (avail_in=%zu avail_out=%zu eos=%d state=%d)", d.pending.size(), cap, (int) eos, (int) d.s->internal_state.state); }
			snap.swap(now);
		} else noprog = 0;
		if (d.calls > bound) { key_suffix = "inconclusive"; return ""; }
	}
	if (ncalls) *ncalls = d.calls;
	if (d.s->total_in != len) { key_suffix = "counters"; return pbt::fmt("stream ended with total_in=%u for %zu input bytes", d.s->total_in, len); }
	return "";
}

} // namespace igzc
