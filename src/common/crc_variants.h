// Registry of the CRC / Adler kernels (direct per-ISA symbols + dispatched entry points)
#pragma once
#include "kern.h"
#include "ref_crc.h"
#include <zlib.h>
#include <algorithm>
extern "C" {
uint32_t isal_adler32(uint32_t init, const unsigned char *buf, uint64_t len);
#define D16(n) uint16_t n(uint16_t, const unsigned char *, uint64_t);
#define D16C(n) uint16_t n(uint16_t, uint8_t *, uint8_t *, uint64_t);
#define D32(n) uint32_t n(uint32_t, const unsigned char *, uint64_t);
#define DISC(n) unsigned int n(unsigned char *, int, unsigned int);
#define D64(n) uint64_t n(uint64_t, const unsigned char *, uint64_t);
D16(crc16_t10dif) D16C(crc16_t10dif_copy) D32(crc32_ieee) D32(crc32_gzip_refl) DISC(crc32_iscsi)
D16(crc16_t10dif_base) D16(crc16_t10dif_01) D16(crc16_t10dif_02) D16(crc16_t10dif_by4) D16(crc16_t10dif_by16_10)
D16C(crc16_t10dif_copy_base) D16C(crc16_t10dif_copy_by4) D16C(crc16_t10dif_copy_by4_02)
D32(crc32_ieee_base) D32(crc32_ieee_01) D32(crc32_ieee_02) D32(crc32_ieee_by4) D32(crc32_ieee_by16_10)
D32(crc32_gzip_refl_base) D32(crc32_gzip_refl_by8) D32(crc32_gzip_refl_by8_02) D32(crc32_gzip_refl_by16_10)
DISC(crc32_iscsi_base) DISC(crc32_iscsi_00) DISC(crc32_iscsi_01) DISC(crc32_iscsi_by16_10)
#define D64ALL(x) D64(crc64_##x) D64(crc64_##x##_base) D64(crc64_##x##_by8) D64(crc64_##x##_by16_10)
D64ALL(ecma_refl) D64ALL(ecma_norm) D64ALL(iso_refl) D64ALL(iso_norm) D64ALL(jones_refl) D64ALL(jones_norm) D64ALL(rocksoft_refl) D64ALL(rocksoft_norm)
D32(adler32_base) D32(adler32_sse) D32(adler32_avx2_4)
// alias layer of assembly-less builds, renamed by the verification makefile (tools/genmk.py)
D16(noarch_crc16_t10dif) D16C(noarch_crc16_t10dif_copy) D32(noarch_crc32_ieee) D32(noarch_crc32_gzip_refl) DISC(noarch_crc32_iscsi)
D64(noarch_crc64_ecma_refl) D64(noarch_crc64_ecma_norm) D64(noarch_crc64_iso_refl) D64(noarch_crc64_iso_norm) D64(noarch_crc64_jones_refl) D64(noarch_crc64_jones_norm)
D64(noarch_crc64_rocksoft_refl) D64(noarch_crc64_rocksoft_norm)
}

namespace crcv {
using namespace refcrc;

enum Kind { K16, K16C, K32, KISC, K64, KADLER };
struct Var { const char *name; Kind kind; int model; void *fn; const char *level; const char *entry; };
#define V(n, k, m, lv) {#n, k, m, (void *) n, lv, nullptr}
#define V64(x, m) V(crc64_##x##_base, K64, m, "base"), V(crc64_##x##_by8, K64, m, "sse"), V(crc64_##x##_by16_10, K64, m, "avx512_g2")
static const Var DIRECT[] = {
	V(crc16_t10dif_base, K16, T10DIF, "base"), V(crc16_t10dif_01, K16, T10DIF, "sse"), V(crc16_t10dif_02, K16, T10DIF, "avx"), V(crc16_t10dif_by4, K16, T10DIF, "sse"), V(crc16_t10dif_by16_10, K16, T10DIF, "avx512_g2"),
	V(crc16_t10dif_copy_base, K16C, T10DIF, "base"), V(crc16_t10dif_copy_by4, K16C, T10DIF, "sse"), V(crc16_t10dif_copy_by4_02, K16C, T10DIF, "avx"),
	V(crc32_ieee_base, K32, IEEE, "base"), V(crc32_ieee_01, K32, IEEE, "sse"), V(crc32_ieee_02, K32, IEEE, "avx"), V(crc32_ieee_by4, K32, IEEE, "sse"), V(crc32_ieee_by16_10, K32, IEEE, "avx512_g2"),
	V(crc32_gzip_refl_base, K32, GZIP, "base"), V(crc32_gzip_refl_by8, K32, GZIP, "sse"), V(crc32_gzip_refl_by8_02, K32, GZIP, "avx"), V(crc32_gzip_refl_by16_10, K32, GZIP, "avx512_g2"),
	V(crc32_iscsi_base, KISC, ISCSI, "base"), V(crc32_iscsi_00, KISC, ISCSI, "sse"), V(crc32_iscsi_01, KISC, ISCSI, "sse"), V(crc32_iscsi_by16_10, KISC, ISCSI, "avx512_g2"),
	V64(ecma_refl, ECMA_REFL), V64(ecma_norm, ECMA_NORM), V64(iso_refl, ISO_REFL), V64(iso_norm, ISO_NORM),
	V64(jones_refl, JONES_REFL), V64(jones_norm, JONES_NORM), V64(rocksoft_refl, ROCKSOFT_REFL), V64(rocksoft_norm, ROCKSOFT_NORM),
	V(noarch_crc16_t10dif, K16, T10DIF, "base"), V(noarch_crc16_t10dif_copy, K16C, T10DIF, "base"), V(noarch_crc32_ieee, K32, IEEE, "base"), V(noarch_crc32_gzip_refl, K32, GZIP, "base"),
	V(noarch_crc32_iscsi, KISC, ISCSI, "base"),
	V(noarch_crc64_ecma_refl, K64, ECMA_REFL, "base"), V(noarch_crc64_ecma_norm, K64, ECMA_NORM, "base"), V(noarch_crc64_iso_refl, K64, ISO_REFL, "base"), V(noarch_crc64_iso_norm, K64, ISO_NORM, "base"),
	V(noarch_crc64_jones_refl, K64, JONES_REFL, "base"), V(noarch_crc64_jones_norm, K64, JONES_NORM, "base"), V(noarch_crc64_rocksoft_refl, K64, ROCKSOFT_REFL, "base"),
	V(noarch_crc64_rocksoft_norm, K64, ROCKSOFT_NORM, "base"),
	// (the three Adler kernels stay last: C04 addresses them as NDIRECT-3..NDIRECT-1)
	V(adler32_base, KADLER, -1, "base"), V(adler32_sse, KADLER, -1, "sse"), V(adler32_avx2_4, KADLER, -1, "avx2"),
};
static const int NDIRECT = sizeof(DIRECT) / sizeof(DIRECT[0]);
#define E(n, k, m) {#n, k, m, (void *) n, nullptr, #n}
static const Var ENTRY[] = {
	E(crc16_t10dif, K16, T10DIF), E(crc16_t10dif_copy, K16C, T10DIF), E(crc32_ieee, K32, IEEE), E(crc32_gzip_refl, K32, GZIP), E(crc32_iscsi, KISC, ISCSI),
	E(crc64_ecma_refl, K64, ECMA_REFL), E(crc64_ecma_norm, K64, ECMA_NORM), E(crc64_iso_refl, K64, ISO_REFL), E(crc64_iso_norm, K64, ISO_NORM),
	E(crc64_jones_refl, K64, JONES_REFL), E(crc64_jones_norm, K64, JONES_NORM), E(crc64_rocksoft_refl, K64, ROCKSOFT_REFL), E(crc64_rocksoft_norm, K64, ROCKSOFT_NORM),
	E(isal_adler32, KADLER, -1),
};
static const int NENTRY = sizeof(ENTRY) / sizeof(ENTRY[0]);


inline uint64_t width_mask(const Var &v) { return v.kind == KADLER ? 0xFFFFFFFFull : mask(model(v.model).width); }
inline uint64_t lib_call(const Var &v, uint64_t seed, uint8_t *buf, size_t len, uint8_t *dst) {
	switch (v.kind) {
	case K16: return ((uint16_t(*)(uint16_t, const unsigned char *, uint64_t)) v.fn)((uint16_t) seed, buf, len);
	case K16C: return ((uint16_t(*)(uint16_t, uint8_t *, uint8_t *, uint64_t)) v.fn)((uint16_t) seed, dst, buf, len);
	case K32: case KADLER: return ((uint32_t(*)(uint32_t, const unsigned char *, uint64_t)) v.fn)((uint32_t) seed, buf, len);
	case KISC: return ((unsigned int (*)(unsigned char *, int, unsigned int)) v.fn)(buf, (int) len, (unsigned int) seed);
	case K64: return ((uint64_t(*)(uint64_t, const unsigned char *, uint64_t)) v.fn)(seed, buf, len);
	}
	return 0;
}
} // namespace crcv
