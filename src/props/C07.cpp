// C07 - streaming results do not depend on how the caller slices buffers or orders calls
#include "streams.h"
using namespace pbt;

static const uint32_t CH[] = {0, 1, 2, 7, 8, 9, 15, 16, 17, 31, 32, 33, 255, 256, 257, 328, 329, 1u << 20, 20000, 65536, 1u << 20};
static const int NCH = sizeof(CH) / sizeof(CH[0]);

// ------------------------------------------------------------------------------------------------ compression
// drive one compression with explicit chunk sizes; a size of 0 inserts an empty call before each real one. Returns "" or a problem.
static std::string deflate_with(const igz::DefOpts &o, const std::vector<uint8_t> &data, size_t in_chunk, size_t out_chunk, int flush, std::vector<uint8_t> &out, std::string &ks) {
	igz::Deflater d(o);
	size_t pos = 0, len = data.size();
	size_t big = len + len / 8 + 2048;
	uint64_t bound = 200 + 6 * (len / (in_chunk ? in_chunk : big) + big / (out_chunk ? out_chunk : big));
	int idle = 0;
	while (!d.finished()) {
		if (in_chunk == 0 || out_chunk == 0) { // the zero-length call: nothing may happen, nothing may break
			igz::CallInfo z = d.call(nullptr, 0, out_chunk == 0 ? 0 : big, flush, pos >= len); // once announced, end_of_stream stays set
			if (z.faulted) { ks = "fault"; return z.problem; }
			if (!z.problem.empty()) { ks = "counters"; return z.problem; }
			if (z.rc != COMP_OK) { ks = "rc"; return fmt("zero-length call returned %d", z.rc); }
		}
		size_t add = 0;
		if (d.pending.empty() && pos < len) add = std::min<size_t>(in_chunk ? in_chunk : big, len - pos);
		bool eos = pos + add >= len;
		size_t cap = out_chunk ? out_chunk : big;
		igz::CallInfo ci = d.call(data.data() + pos, add, cap, flush, eos);
		pos += add;
		if (ci.faulted) { ks = "fault"; return ci.problem; }
		if (!ci.problem.empty()) { ks = "counters"; return ci.problem; }
		if (ci.rc != COMP_OK) { ks = "rc"; return fmt("isal_deflate returned %d", ci.rc); }
		if (ci.consumed + ci.produced == 0 && add == 0) {
			// no progress: supplying more output space must then make progress
			if (++idle >= 2) {
				igz::CallInfo c2 = d.call(nullptr, 0, big, flush, eos);
				if (c2.faulted || !c2.problem.empty()) { ks = "fault"; return c2.problem; }
				if (c2.consumed + c2.produced == 0 && !d.finished()) { ks = "stall"; return fmt("no progress even with %zu bytes of output space (state %d, %zu input bytes pending, eos %d)", big, (int) d.s->internal_state.state, d.pending.size(), (int) eos); }
				idle = 0;
			}
		} else idle = 0;
		if (d.calls > bound) { ks = "inconclusive"; return ""; }
	}
	out = d.out;
	guard::release_all();
	return "";
}

static void decode_def(Tape &t, igz::DefOpts &o, const char *&lv) {
	o.level = (int) t.range(0, 3);
	o.gzip_flag = (int) t.range(0, 4);
	int lb = (int) t.range(0, 4);
	o.lbuf_size = igz::lvl_buf_size(o.level, lb);
	// level 0 has no level buffer, so its draw selects the Huffman table instead: with the static table the block header is zero bytes long
	// and the header/trailer resume states (count == 0 in ZSTATE_HDR) behave differently from the default table
	if (o.level == 0 && (lb & 1)) o.table = IGZIP_HUFFTABLE_STATIC;
	o.hist_bits = (int) t.pick<uint32_t>({0, 0, 12, 15, 9});
	lv = cpu::LEVEL_NAMES[t.pick<uint32_t>({11, 0, 1, 6, 8})];
}

// every single split point of the input, and separately of the output, for one small input
static void body_def_splits(Tape &t, Ctx &c) {
	std::vector<dg::Seg> segs;
	int n = (int) t.range(1, 3);
	for (int i = 0; i < n; i++) segs.push_back(dg::Seg{(int) t.range(0, 8), (size_t) t.range(0, 200), t.bits64(), (size_t) t.range(1, 40), (size_t) t.range(1, 100)});
	std::vector<uint8_t> data;
	dg::expand(segs, data);
	igz::DefOpts o;
	const char *lv;
	decode_def(t, o, lv);
	int flush = (int) t.range(0, 2);
	kern::use_level(lv);
	c.fpmix(dg::fingerprint(segs)); c.fpmix(o.level * 100 + o.gzip_flag * 10 + flush); c.fpmix(o.hist_bits); c.fpmix(mix64((uint64_t) (uintptr_t) lv));
	std::string where = fmt("level %d gzip_flag %d hist_bits %d flush %d cpu %s, %zu input bytes", o.level, o.gzip_flag, o.hist_bits, flush, lv, data.size());
	size_t big = data.size() + data.size() / 8 + 2048, nsplits = 0;
	for (int side = 0; side < 2; side++) {
		size_t limit = side == 0 ? data.size() : 0;
		if (side == 1) { std::vector<uint8_t> ref; std::string ks; deflate_with(o, data, 0 + big, big, flush, ref, ks); limit = ref.size() + 8; }
		for (size_t k = 0; k <= limit; k++) {
			igz::Deflater d(o);
			size_t pos = 0;
			int guardc = 0;
			bool first = true;
			while (!d.finished()) {
				size_t add = 0, cap = big;
				if (d.pending.empty() && pos < data.size()) add = side == 0 ? (first ? k : data.size() - pos) : data.size() - pos;
				if (side == 1 && first) cap = k;
				bool eos = pos + add >= data.size();
				igz::CallInfo ci = d.call(data.data() + pos, add, cap, flush, eos);
				pos += add;
				first = false;
				PBT_CHECK(!ci.faulted, "stream-independence:deflate:fault", "%s, %s split at %zu: %s", where.c_str(), side ? "output" : "input", k, ci.problem.c_str());
				PBT_CHECK(ci.problem.empty() && ci.rc == COMP_OK, "stream-independence:deflate:call", "%s, %s split at %zu: rc %d %s", where.c_str(), side ? "output" : "input", k, ci.rc, ci.problem.c_str());
				PBT_CHECK(++guardc < 200, "stream-independence:deflate:stall", "%s, %s split at %zu: not finished after 200 calls with ample space", where.c_str(), side ? "output" : "input", k);
			}
			std::string v = igzc::verify_stream(d.out, data, o.gzip_flag, o.hist_bits);
			PBT_CHECK(v.empty(), "stream-independence:deflate:decode", "%s, %s split at %zu: %s", where.c_str(), side ? "output" : "input", k, v.c_str());
			guard::release_all();
			nsplits++;
		}
	}
	c.nontrivial = data.size() >= 3;
	c.label(fmt("level=%d", o.level));
	if (c.want_sample) c.sample = fmt("{\"data\":%s,\"level\":%d,\"gzip_flag\":%d,\"flush\":%d,\"cpu\":\"%s\",\"split_points_tried\":%zu}", dg::describe(segs).c_str(), o.level, o.gzip_flag, flush, lv, nsplits);
}

// all pairs (input chunk size, output chunk size) from the boundary set
static void body_def_pairs(Tape &t, Ctx &c) {
	std::vector<dg::Seg> segs;
	int n = (int) t.range(1, 3);
	for (int i = 0; i < n; i++) segs.push_back(dg::Seg{(int) t.range(0, 8), (size_t) t.range(1, 700), t.bits64(), (size_t) t.range(1, 40), (size_t) t.range(1, 300)});
	std::vector<uint8_t> data;
	dg::expand(segs, data);
	igz::DefOpts o;
	const char *lv;
	decode_def(t, o, lv);
	int flush = (int) t.range(0, 2);
	kern::use_level(lv);
	c.fpmix(dg::fingerprint(segs)); c.fpmix(o.level * 100 + o.gzip_flag * 10 + flush); c.fpmix(o.hist_bits); c.fpmix(mix64((uint64_t) (uintptr_t) lv));
	size_t npairs = 0;
	for (int a = 0; a < NCH; a++)
		for (int b = 0; b < NCH; b++) {
			if (flush != NO_FLUSH && CH[b] && CH[b] < 8 && CH[a] && CH[a] < 8) continue; // thousands of flush cycles through < 8-byte buffers: covered by C14 with a bounded schedule
			std::vector<uint8_t> out;
			std::string ks;
			std::string e = deflate_with(o, data, CH[a], CH[b], flush, out, ks);
			if (ks == "inconclusive") { c.label("pair-inconclusive(call-bound)"); guard::release_all(); continue; }
			PBT_CHECK(e.empty(), "stream-independence:deflate:" + ks, "level %d gzip_flag %d flush %d cpu %s, %zu bytes, input chunks %u output chunks %u: %s", o.level, o.gzip_flag, flush, lv, data.size(), CH[a], CH[b], e.c_str());
			std::string v = igzc::verify_stream(out, data, o.gzip_flag, o.hist_bits);
			PBT_CHECK(v.empty(), "stream-independence:deflate:decode", "level %d gzip_flag %d flush %d cpu %s, %zu bytes, input chunks %u output chunks %u: %s", o.level, o.gzip_flag, flush, lv, data.size(), CH[a], CH[b], v.c_str());
			npairs++;
		}
	c.nontrivial = true;
	c.label(fmt("level=%d", o.level));
	if (c.want_sample) c.sample = fmt("{\"data\":%s,\"level\":%d,\"gzip_flag\":%d,\"flush\":%d,\"cpu\":\"%s\",\"chunk_pairs\":%zu}", dg::describe(segs).c_str(), o.level, o.gzip_flag, flush, lv, npairs);
}

// generated call histories: refill before drain, zero-length buffers, flush changes, late end_of_stream
static void body_def_history(Tape &t, Ctx &c) {
	std::vector<dg::Seg> segs;
	dg::gen(t, segs, 150000);
	std::vector<uint8_t> data;
	dg::expand(segs, data);
	igz::DefOpts o;
	const char *lv;
	decode_def(t, o, lv);
	kern::use_level(lv);
	int nsteps = (int) t.range(1, 24);
	uint32_t reoffer = (uint32_t) t.pick<uint32_t>({0, 0, 1, 2, 8, 64}); // the caller re-cuts input the library left unconsumed
	uint64_t hs = t.bits64();
	bool late_eos = t.coin();
	c.fpmix(dg::fingerprint(segs)); c.fpmix(o.level * 100 + o.gzip_flag * 10); c.fpmix(o.hist_bits); c.fpmix(mix64((uint64_t) (uintptr_t) lv)); c.fpmix(nsteps); c.fpmix(hs); c.fpmix(late_eos); c.fpmix(reoffer);
	igz::Deflater d(o);
	size_t pos = 0, len = data.size(), big = len + len / 8 + 2048;
	std::string where = fmt("level %d gzip_flag %d hist_bits %d cpu %s, %zu bytes", o.level, o.gzip_flag, o.hist_bits, lv, len);
	std::string hist;
	int boundaries = 0;
	bool prev_full = false;
	for (int i = 0; i < nsteps && !d.finished(); i++) {
		uint64_t h = mix64(hs + i);
		size_t add = CH[h % NCH];
		if (add > len - pos) add = len - pos;                 // refill while earlier input may still be pending: legal
		size_t cap = CH[(h >> 16) % NCH];
		if (cap > big) cap = big;
		int flush = (int) ((h >> 32) % 3);
		bool eos = pos + add >= len && !late_eos;
		bool cut = reoffer && d.pending.size() + add > reoffer && (prev_full || ((h >> 40) & 3) == 0) && !d.eos_announced; // only a prefix of (unconsumed remainder + new bytes) is offered; the rest stays with the caller
		if (cut) d.offer_limit = reoffer;
		igz::CallInfo ci = d.call(data.data() + pos, add, cap, flush, eos);
		pos += add;
		prev_full = cap > 0 && ci.produced == cap;
		if (hist.size() < 300) hist += fmt("(+%zu%s,%zu,f%d%s)", add, cut ? fmt("[only %u of the rest offered]", reoffer).c_str() : "", cap, flush, eos ? ",eos" : "");
		if (add && pos < len) boundaries++;
		PBT_CHECK(!ci.faulted, "stream-independence:deflate:fault", "%s, history %s: %s", where.c_str(), hist.c_str(), ci.problem.c_str());
		PBT_CHECK(ci.problem.empty() && ci.rc == COMP_OK, "stream-independence:deflate:call", "%s, history %s: rc %d %s", where.c_str(), hist.c_str(), ci.rc, ci.problem.c_str());
	}
	// finish: everything else with end_of_stream and ample output; every call must now make progress
	int guardc = 0;
	while (!d.finished()) {
		size_t add = len - pos;
		igz::CallInfo ci = d.call(data.data() + pos, add, big, NO_FLUSH, true);
		pos += add;
		PBT_CHECK(!ci.faulted, "stream-independence:deflate:fault", "%s, history %s then finish: %s", where.c_str(), hist.c_str(), ci.problem.c_str());
		PBT_CHECK(ci.problem.empty() && ci.rc == COMP_OK, "stream-independence:deflate:call", "%s, history %s then finish: rc %d %s", where.c_str(), hist.c_str(), ci.rc, ci.problem.c_str());
		PBT_CHECK(ci.consumed + ci.produced > 0 || d.finished(), "stream-independence:deflate:stall", "%s, history %s: a call with end_of_stream, %zu pending input bytes and %zu bytes of output space made no progress (state %d)", where.c_str(), hist.c_str(), d.pending.size(), big, (int) d.s->internal_state.state);
		PBT_CHECK(++guardc < 400, "stream-independence:deflate:stall", "%s: not finished after 400 finishing calls", where.c_str());
	}
	std::string v = igzc::verify_stream(d.out, data, o.gzip_flag, o.hist_bits);
	PBT_CHECK(v.empty(), "stream-independence:deflate:decode", "%s, history %s: %s", where.c_str(), hist.c_str(), v.c_str());
	c.nontrivial = d.calls >= 3 && boundaries >= 1;
	c.label(fmt("level=%d", o.level));
	if (c.want_sample) c.sample = fmt("{\"data\":%s,\"level\":%d,\"gzip_flag\":%d,\"cpu\":\"%s\",\"history\":%s,\"calls\":%llu}", dg::describe(segs).c_str(), o.level, o.gzip_flag, lv, jstr(hist).c_str(), (unsigned long long) d.calls);
}

// whole-stream schedules (constant / random / boundary-set / small-medium-rest chunkings on both sides, refill before drain, late end_of_stream,
// flush mode per call, and the caller that re-cuts its remaining input after every call that filled the output chunk)
static void body_def_plans(Tape &t, Ctx &c) {
	std::vector<dg::Seg> segs;
	// one case in three is aimed at the deepest resume state of levels 1-3: a block that ends because the token buffer of a *small* level buffer is
	// full (match table partly replayed), flushed through small output chunks while the caller re-cuts its remaining input into 1..8-byte pieces
	bool deep = t.range(0, 2) == 0;
	// ... and half of those at the token encoders' overflow exits: skewed data whose blocks contain tokens of 30..48 bits (long codes in all three
	// alphabets, far copies), written through output chunks that end in the middle of a group of tokens, on the encoders the build host does not select
	bool longtok = deep && t.coin();
	if (longtok) { segs.clear(); segs.push_back(dg::Seg{10, (size_t) t.range(30000, 120000), t.bits64(), 1, 0}); }
	else if (deep) dg::gen(t, segs, 150000, nullptr, (int) t.pick<uint32_t>({3, 3, 6, 4})); else dg::gen(t, segs, 150000);
	std::vector<uint8_t> data;
	dg::expand(segs, data);
	igz::DefOpts o;
	const char *lv;
	decode_def(t, o, lv);
	igzc::StreamPlan p = igzc::decode_plan(t, data.size());
	if (longtok) {
		o.level = (int) t.range(1, 3);
		o.lbuf_size = igz::lvl_buf_size(o.level, (int) t.range(0, 3));
		lv = cpu::LEVEL_NAMES[t.pick<uint32_t>({6, 6, 0, 1, 4, 11})];
		p.out.mode = 1; p.out.param = 40 + t.raw() % 2960;
		p.in.mode = (int) t.pick<uint32_t>({0, 0, 4, 1}); if (p.in.mode == 1 && p.in.param < 4096) p.in.param = 65536;
		p.reoffer_limit = 0;
	} else if (deep) {
		o.level = (int) t.pick<uint32_t>({3, 3, 1, 2});
		o.lbuf_size = igz::lvl_buf_size(o.level, (int) t.range(0, 1)) + (uint32_t) t.range(0, 63);
		p.out.mode = 1; p.out.param = (uint32_t) t.pick<uint32_t>({15, 16, 31, 64, 257, 15});
		if (data.size() / p.out.param > 3000) p.out.param = (uint32_t) (data.size() / 3000 + 1);
		p.reoffer_limit = (uint32_t) t.pick<uint32_t>({1, 1, 2, 8});
	}
	kern::use_level(lv);
	c.fpmix(dg::fingerprint(segs)); c.fpmix(o.level * 100 + o.gzip_flag * 10); c.fpmix(o.hist_bits); c.fpmix(o.lbuf_size); c.fpmix(mix64((uint64_t) (uintptr_t) lv));
	c.fpmix(p.in.mode * 7 + p.in.param); c.fpmix(p.out.mode * 7 + p.out.param); c.fpmix(p.flush_mode * 8 + p.late_eos * 4 + p.refill_before_drain * 2); c.fpmix(p.reoffer_limit);
	igz::Deflater d(o);
	d.in_place = t.coin() ? guard::START : guard::END;
	std::string ks, where = fmt("level %d gzip_flag %d hist_bits %d level_buf %u cpu %s, %zu bytes, in %s out %s flush-mode %d%s%s%s", o.level, o.gzip_flag, o.hist_bits, o.lbuf_size, lv, data.size(), p.in.text().c_str(), p.out.text().c_str(), p.flush_mode,
	                              p.late_eos ? ", late end_of_stream" : "", p.refill_before_drain ? ", refill before drain" : "", p.reoffer_limit ? fmt(", only %u bytes of the rest offered after a full output chunk", p.reoffer_limit).c_str() : "");
	uint64_t ncalls = 0;
	std::string err = igzc::run_stream(d, data, p, ks, &ncalls);
	if (ks == "inconclusive") throw Skip("inconclusive (call bound)");
	PBT_CHECK(err.empty(), "stream-independence:deflate:" + ks, "%s: %s", where.c_str(), err.c_str());
	std::string v = igzc::verify_stream(d.out, data, o.gzip_flag, o.hist_bits);
	PBT_CHECK(v.empty(), "stream-independence:deflate:decode", "%s: %s", where.c_str(), v.c_str());
	c.nontrivial = ncalls >= 3;
	c.label(fmt("level=%d", o.level));
	if (p.reoffer_limit) c.label("re-cut-after-full-output");
	if (longtok) c.label("deep:long-tokens+output-chunk-ends-mid-group");
	else if (deep) c.label("deep:small-level-buffer+small-output+tiny-reoffer");
	if (c.want_sample) c.sample = fmt("{\"data\":%s,\"level\":%d,\"gzip_flag\":%d,\"cpu\":\"%s\",\"in\":\"%s\",\"out\":\"%s\",\"flush_mode\":%d,\"reoffer\":%u,\"calls\":%llu}", dg::describe(segs).c_str(), o.level, o.gzip_flag, lv, p.in.text().c_str(), p.out.text().c_str(), p.flush_mode, p.reoffer_limit, (unsigned long long) ncalls);
}

// ------------------------------------------------------------------------------------------------ the token encoders of levels 1-3
// flush_icf_block() hands the queued tokens of a block to encode_deflate_icf() with whatever output space the caller offered and calls it again with
// the next chunk: the encoder's "out of space" exits decide where it resumes.  Here every variant is driven directly with generated tokens and tables
// (rare long codes in all three alphabets, bursts of far matches: single tokens of up to 48 bits) through generated piece sizes, each piece ending at
// a guard page; the gathered bits must equal what the plain C encoder writes into one large buffer.
extern "C" {
#include "encode_df.h"
#include "bitbuf2.h"
struct deflate_icf *encode_deflate_icf_base(struct deflate_icf *, struct deflate_icf *, struct BitBuf2 *, struct hufftables_icf *);
struct deflate_icf *encode_deflate_icf_04(struct deflate_icf *, struct deflate_icf *, struct BitBuf2 *, struct hufftables_icf *);
struct deflate_icf *encode_deflate_icf_06(struct deflate_icf *, struct deflate_icf *, struct BitBuf2 *, struct hufftables_icf *);
}
static struct hufftables_icf g_icf_tables;
static void body_token_encoder(Tape &t, Ctx &c) {
	typedef struct deflate_icf *(*efn)(struct deflate_icf *, struct deflate_icf *, struct BitBuf2 *, struct hufftables_icf *);
	static const struct { const char *n; efn f; const char *lv; } V[] = {{"encode_deflate_icf_base", encode_deflate_icf_base, "base"}, {"encode_deflate_icf_04", encode_deflate_icf_04, "avx2"}, {"encode_deflate_icf_06", encode_deflate_icf_06, "avx512"}};
	int vi = (int) t.range(0, 2 + cpu::N_LEVELS);
	efn fn; std::string vname;
	if (vi < 3) { cpu::Config cfg; cpu::level_config(V[vi].lv, cfg); if (!cpu::host_can_run(cfg)) throw Skip("host cannot execute variant"); fn = V[vi].f; vname = V[vi].n; }
	else { const char *lv = cpu::LEVEL_NAMES[vi - 3]; kern::use_level(lv); fn = encode_deflate_icf; vname = std::string("encode_deflate_icf@") + lv; }
	size_t ntok = (size_t) (t.coin() ? t.range(1, 200) : t.range(200, 6000));
	uint64_t seed = t.bits64();
	int far_every = (int) t.pick<uint32_t>({40, 400, 8, 2000});
	std::vector<struct deflate_icf> tok(ntok + 1);
	static struct isal_mod_hist hist;
	memset(&hist, 0, sizeof hist);
	int burst = 0;
	for (size_t i = 0; i < ntok; i++) {
		uint64_t h = mix64(seed + i * 0x9E3779B9ull);
		struct deflate_icf k;
		memset(&k, 0, sizeof k);
		if (burst == 0 && h % far_every == 0) burst = 1 + (int) ((h >> 50) % 8);
		if (burst > 0) { // match: rare long length, rare far distance
			burst--;
			unsigned len = (h >> 8) % 3 == 0 ? 3 + (h >> 12) % 8 : 3 + (h >> 12) % 256;
			unsigned ds = (h >> 24) % 4 == 0 ? (unsigned) ((h >> 28) % 30) : 26 + (unsigned) ((h >> 28) % 4);
			k.lit_len = 254 + len; k.lit_dist = ds;
			unsigned eb = ds < 4 ? 0 : (ds - 2) / 2;
			k.dist_extra = (uint32_t) ((h >> 36) & ((1u << eb) - 1));
			hist.ll_hist[k.lit_len]++; hist.d_hist[ds]++;
		} else {
			uint8_t b1 = (uint8_t) (mix64(seed + 77 * __builtin_ctzll(h | (1ull << 20))) >> 11);
			k.lit_len = b1; k.lit_dist = NULL_DIST_SYM;
			hist.ll_hist[b1]++;
			if ((h >> 40) % 3 == 0) { uint8_t b2 = (uint8_t) (mix64(seed + 79 * __builtin_ctzll((h >> 3) | (1ull << 20))) >> 11); k.lit_dist = LIT_START + b2; hist.ll_hist[b2]++; }
		}
		tok[i] = k;
	}
	memset(&tok[ntok], 0, sizeof tok[ntok]);
	tok[ntok].lit_len = 256; tok[ntok].lit_dist = NULL_DIST_SYM;
	hist.ll_hist[256]++;
	size_t P = (size_t) (t.coin() ? t.range(16, 300) : t.range(16, 3000));
	size_t tiny = t.range(0, 5) == 0 ? (size_t) t.range(1, 15) : 0; // as isal_deflate_int does it: a piece of 1..15 bytes first (with fewer than 8 nothing may be written), then the 16-byte staging buffer
	c.fpmix(vi); c.fpmix(ntok); c.fpmix(seed); c.fpmix(far_every); c.fpmix(P); c.fpmix(tiny);
	// tables (the library's own builder; the header bits go to a scratch buffer)
	std::vector<uint8_t> hdrbuf(4096);
	struct BitBuf2 hb;
	memset(&hb, 0, sizeof hb);
	set_buf(&hb, hdrbuf.data(), (unsigned) hdrbuf.size());
	create_hufftables_icf(&hb, &g_icf_tables, &hist, 1);
	// reference: the plain C encoder into one large buffer
	std::vector<uint8_t> ref((ntok + 2) * 8 + 64);
	struct BitBuf2 rb;
	memset(&rb, 0, sizeof rb);
	set_buf(&rb, ref.data(), (unsigned) ref.size());
	struct deflate_icf *re = encode_deflate_icf_base(tok.data(), tok.data() + ntok + 1, &rb, &g_icf_tables);
	if (re != tok.data() + ntok + 1) throw OracleBug("reference encoder stopped early in a large buffer");
	uint64_t ref_bits = (uint64_t) buffer_used(&rb) * 8 + rb.m_bit_count;
	flush(&rb);
	size_t ref_len = buffer_used(&rb);
	// the variant, piece by piece
	std::vector<uint8_t> got;
	struct BitBuf2 bb;
	memset(&bb, 0, sizeof bb);
	struct deflate_icf *next = tok.data(), *end = tok.data() + ntok + 1;
	int stalls = 0;
	uint64_t pieces = 0;
	std::string where = tiny ? fmt("%s, %zu tokens (a far-match burst every ~%d tokens), pieces alternating %zu and 16 bytes", vname.c_str(), ntok, far_every, tiny) : fmt("%s, %zu tokens (a far-match burst every ~%d tokens), pieces of %zu bytes", vname.c_str(), ntok, far_every, P);
	while (next < end) {
		size_t Pn = tiny ? ((pieces & 1) ? 16 : tiny) : P;
		guard::Buf pc = guard::alloc(Pn, guard::END, "output piece");
		set_buf(&bb, pc.p, (unsigned) Pn);
		struct deflate_icf *nn = nullptr;
		guard::Fault f = guard::call([&] { nn = fn(next, end, &bb, &g_icf_tables); });
		PBT_CHECK(!f.faulted, "stream-independence:token-encoder:fault", "%s, piece %llu: %s", where.c_str(), (unsigned long long) pieces, f.describe().c_str());
		size_t used = buffer_used(&bb);
		PBT_CHECK(used <= Pn && guard::canaries_ok(pc), "stream-independence:token-encoder:overrun", "%s: piece %llu of %zu bytes reports %zu bytes used", where.c_str(), (unsigned long long) pieces, Pn, used);
		PBT_CHECK(nn >= next && nn <= end, "stream-independence:token-encoder:resume", "%s: returned token pointer outside [next, end]", where.c_str());
		got.insert(got.end(), pc.p, pc.p + used);
		if (nn == next && used == 0) { PBT_CHECK(++stalls < 3, "stream-independence:token-encoder:stall", "%s: no token taken and no byte written in three consecutive pieces", where.c_str()); } else stalls = 0;
		next = nn;
		guard::retire(pc);
		pieces++;
	}
	uint64_t got_bits = (uint64_t) got.size() * 8 + bb.m_bit_count;
	{ guard::Buf pc = guard::alloc(16, guard::END, "output piece"); set_buf(&bb, pc.p, 16); flush(&bb); got.insert(got.end(), pc.p, pc.p + buffer_used(&bb)); }
	PBT_CHECK(got_bits == ref_bits && got.size() == ref_len && memcmp(got.data(), ref.data(), ref_len) == 0, "stream-independence:token-encoder:bits",
	          "%s: %llu bits gathered from %llu pieces, the plain C encoder writes %llu bits into one buffer (first differing byte %zu)", where.c_str(), (unsigned long long) got_bits, (unsigned long long) pieces, (unsigned long long) ref_bits,
	          (size_t) (std::mismatch(got.begin(), got.begin() + std::min(got.size(), ref_len), ref.begin()).first - got.begin()));
	c.nontrivial = pieces >= 2;
	c.label(vi < 3 ? vname : vname + "->" + cpu::resolved_name("encode_deflate_icf"));
	if (c.want_sample) c.sample = fmt("{\"variant\":%s,\"tokens\":%zu,\"piece\":%zu,\"pieces\":%llu,\"bits\":%llu}", jstr(vname).c_str(), ntok, P, (unsigned long long) pieces, (unsigned long long) ref_bits);
}

// ------------------------------------------------------------------------------------------------ decompression
struct InfResult { int rc; bool finished; std::vector<uint8_t> out; uint32_t crc; int block_state; bool faulted; std::string problem; uint64_t calls; };
static InfResult inflate_oneshot(const std::vector<uint8_t> &in, int crc_flag, size_t cap) {
	igz::InfOpts io;
	io.crc_flag = crc_flag;
	io.stateless = true;
	igz::Inflater inf(io);
	igz::CallInfo ci = inf.call(in.data(), in.size(), cap);
	InfResult r{ci.rc, inf.finished(), inf.out, inf.s->crc, (int) inf.s->block_state, ci.faulted, ci.problem, 1};
	guard::release_all();
	return r;
}
// chunk(i) gives the i-th (in, out) sizes; 0-sized calls allowed
template <typename F> static InfResult inflate_chunked(const std::vector<uint8_t> &in, int crc_flag, size_t big, uint64_t limit, F chunk) {
	igz::InfOpts io;
	io.crc_flag = crc_flag;
	igz::Inflater inf(io);
	InfResult r{0, false, {}, 0, 0, false, "", 0};
	size_t pos = 0;
	int idle = 0;
	for (uint64_t i = 0; i < limit; i++) {
		size_t add, cap;
		chunk(i, add, cap);
		if (inf.out.size() > big) break; // more output than the stream can legitimately hold: judged by the comparison below
		if (add > in.size() - pos) add = in.size() - pos;
		igz::CallInfo ci = inf.call(in.data() + pos, add, cap);
		pos += add;
		if (ci.faulted || !ci.problem.empty()) { r.faulted = true; r.problem = ci.problem; break; }
		r.rc = ci.rc;
		if (ci.rc != 0 || inf.finished()) break;
		if (ci.consumed + ci.produced == 0 && add == 0 && pos >= in.size()) {
			// everything was supplied; offer ample output space: progress must follow or the stream is incomplete
			if (++idle >= 2) {
				igz::CallInfo c2 = inf.call(nullptr, 0, big);
				if (c2.faulted || !c2.problem.empty()) { r.faulted = true; r.problem = c2.problem; break; }
				r.rc = c2.rc;
				if (c2.rc != 0 || inf.finished() || c2.consumed + c2.produced == 0) break;
				idle = 0;
			}
		} else idle = 0;
	}
	r.finished = inf.finished();
	r.out = inf.out;
	r.crc = inf.s->crc;
	r.block_state = (int) inf.s->block_state;
	r.calls = inf.calls;
	guard::release_all();
	return r;
}

static void compare(const InfResult &one, const InfResult &st, bool valid, const std::vector<uint8_t> &data, const std::string &what) {
	PBT_CHECK(!st.faulted, "stream-independence:inflate:fault", "%s: %s", what.c_str(), st.problem.c_str());
	if (valid) {
		PBT_CHECK(st.rc == ISAL_DECOMP_OK && st.finished, "stream-independence:inflate:status", "%s: streaming ends with rc %d block_state %d, one-shot decompression of the same stream succeeds", what.c_str(), st.rc, st.block_state);
		PBT_CHECK(st.out == data, "stream-independence:inflate:data", "%s: streaming delivers %zu bytes that differ from the one-shot result (%zu bytes)", what.c_str(), st.out.size(), data.size());
		PBT_CHECK(st.crc == one.crc, "stream-independence:inflate:crc", "%s: state.crc %08x after streaming, %08x after one-shot", what.c_str(), st.crc, one.crc);
	} else {
		PBT_CHECK(!(st.finished && st.rc == ISAL_DECOMP_OK), "stream-independence:inflate:status", "%s: streaming reports completion of a stream that one-shot decompression refuses (rc %d)", what.c_str(), one.rc);
	}
}

static int pick_flag(Tape &t, const streams::Built &b, bool &strip) {
	static const int FLAGS[3][3] = {{ISAL_DEFLATE, ISAL_DEFLATE, ISAL_DEFLATE}, {ISAL_GZIP, ISAL_GZIP_NO_HDR, ISAL_GZIP_NO_HDR_VER}, {ISAL_ZLIB, ISAL_ZLIB_NO_HDR, ISAL_ZLIB_NO_HDR_VER}};
	int fsel = (int) t.pick<uint32_t>({0, 0, 1, 2});
	strip = b.wrapper && fsel > 0;
	return FLAGS[b.wrapper][fsel];
}

// every single split point of the input and of the output of one small stream
static void body_inf_splits(Tape &t, Ctx &c) {
	streams::Built b;
	streams::build(t, b, 300, true);
	if (b.stream.size() > 700 || b.data.size() > 4000) throw Skip("stream too large for the exhaustive split sweep");
	bool strip;
	int crc_flag = pick_flag(t, b, strip);
	const char *lv = cpu::LEVEL_NAMES[t.pick<uint32_t>({11, 0, 1, 6})];
	kern::use_level(lv);
	std::vector<uint8_t> in(b.stream.begin() + (strip ? b.hdr : 0), b.stream.end());
	size_t big = b.data.size() + 64;
	c.fpmix(mix64(in.size())); for (uint8_t x : in) c.fpmix(x); c.fpmix(crc_flag); c.fpmix(mix64((uint64_t) (uintptr_t) lv));
	InfResult one = inflate_oneshot(in, crc_flag, big);
	std::string cfg = fmt("%s, wrapper %d (%d optional gzip fields), crc_flag %d, cpu %s, %zu-byte stream -> %zu bytes", b.src.c_str(), b.wrapper, b.gz_optional, crc_flag, lv, in.size(), b.data.size());
	PBT_CHECK(!one.faulted && one.rc == 0 && one.finished && one.out == b.data, "inflate:stateless:data", "%s: one-shot decompression of a valid stream fails (rc %d) %s", cfg.c_str(), one.rc, one.problem.c_str());
	for (size_t k = 0; k <= in.size(); k++) {
		InfResult st = inflate_chunked(in, crc_flag, big, 64, [&](uint64_t i, size_t &add, size_t &cap) { add = i == 0 ? k : in.size(); cap = big; });
		compare(one, st, true, b.data, fmt("%s, input split at %zu", cfg.c_str(), k));
	}
	for (size_t k = 0; k <= b.data.size() + 1 && k < 1500; k++) {
		InfResult st = inflate_chunked(in, crc_flag, big, 64, [&](uint64_t i, size_t &add, size_t &cap) { add = in.size(); cap = i == 0 ? k : big; });
		compare(one, st, true, b.data, fmt("%s, output split at %zu", cfg.c_str(), k));
	}
	c.nontrivial = b.hdr > 10 || b.labels.count("has-match");
	c.label(fmt("crc_flag=%d", crc_flag));
	if (b.gz_optional >= 2) c.label("gzip>=2-optional-fields");
	c.label("src=" + b.src.substr(0, b.src.find('(')));
	if (c.want_sample) c.sample = fmt("{\"source\":%s,\"wrapper\":%d,\"gzip_optional_fields\":%d,\"crc_flag\":%d,\"cpu\":\"%s\",\"stream\":%s,\"input_splits\":%zu,\"output_splits\":%zu}", jstr(b.src).c_str(), b.wrapper, b.gz_optional, crc_flag, lv, jhex(in.data(), in.size(), 32).c_str(), in.size() + 1, std::min<size_t>(b.data.size() + 2, 1500));
}

static void body_inf_pairs(Tape &t, Ctx &c) {
	streams::Built b;
	streams::build(t, b, 1500, true);
	if (b.stream.size() > 3000 || b.data.size() > 20000) throw Skip("stream too large for the pair matrix");
	bool strip;
	int crc_flag = pick_flag(t, b, strip);
	const char *lv = cpu::LEVEL_NAMES[t.pick<uint32_t>({11, 0, 1, 6})];
	kern::use_level(lv);
	std::vector<uint8_t> in(b.stream.begin() + (strip ? b.hdr : 0), b.stream.end());
	size_t big = b.data.size() + 64;
	c.fpmix(mix64(in.size())); for (size_t i = 0; i < in.size() && i < 100; i++) c.fpmix(in[i]); c.fpmix(crc_flag); c.fpmix(mix64((uint64_t) (uintptr_t) lv));
	InfResult one = inflate_oneshot(in, crc_flag, big);
	std::string cfg = fmt("%s, wrapper %d, crc_flag %d, cpu %s, %zu-byte stream -> %zu bytes", b.src.c_str(), b.wrapper, crc_flag, lv, in.size(), b.data.size());
	PBT_CHECK(!one.faulted && one.rc == 0 && one.finished && one.out == b.data, "inflate:stateless:data", "%s: one-shot decompression of a valid stream fails (rc %d)", cfg.c_str(), one.rc);
	size_t np = 0;
	for (int a = 0; a < NCH; a++)
		for (int bb = 0; bb < NCH; bb++) {
			size_t ia = CH[a], ob = CH[bb];
			if (ia == 0 && ob == 0) continue;
			uint64_t lim = 200 + 4 * (in.size() / (ia ? ia : in.size() + 1) + big / (ob ? ob : big));
			InfResult st = inflate_chunked(in, crc_flag, big, lim, [&](uint64_t i, size_t &add, size_t &cap) {
				// a chunk size of 0 means: every other call carries nothing
				add = ia ? ia : (i & 1 ? in.size() : 0);
				cap = ob ? std::min(ob, big) : (i & 1 ? big : 0);
			});
			compare(one, st, true, b.data, fmt("%s, input chunks %zu output chunks %zu", cfg.c_str(), ia, ob));
			np++;
		}
	c.nontrivial = true;
	c.label(fmt("crc_flag=%d", crc_flag));
	if (c.want_sample) c.sample = fmt("{\"source\":%s,\"wrapper\":%d,\"crc_flag\":%d,\"cpu\":\"%s\",\"stream_bytes\":%zu,\"pairs\":%zu}", jstr(b.src).c_str(), b.wrapper, crc_flag, lv, in.size(), np);
}

// generated schedules on valid and on corrupted streams
static void body_inf_history(Tape &t, Ctx &c) {
	streams::Built b;
	streams::build(t, b, 60000);
	bool strip;
	int crc_flag = pick_flag(t, b, strip);
	const char *lv = cpu::LEVEL_NAMES[t.pick<uint32_t>({11, 0, 1, 6})];
	kern::use_level(lv);
	std::vector<uint8_t> in(b.stream.begin() + (strip ? b.hdr : 0), b.stream.end());
	bool corrupt = t.range(0, 3) == 0 && !in.empty();
	if (corrupt) {
		uint64_t h = t.bits64();
		size_t off = h % in.size();
		if ((h >> 40) & 1) in[off] ^= (uint8_t) (1u << ((h >> 32) % 8)); else in.resize(off);
	}
	size_t big = b.data.size() + 4096;
	uint64_t hs = t.bits64();
	int mode = (int) t.range(0, 2);
	uint32_t pin = CH[1 + t.range(0, NCH - 2)], pout = CH[1 + t.range(0, NCH - 2)];
	if (in.size() / pin > 3000) pin = (uint32_t) (in.size() / 3000 + 1);
	if (b.data.size() / pout > 3000) pout = (uint32_t) (b.data.size() / 3000 + 1);
	c.fpmix(mix64(in.size())); for (size_t i = 0; i < in.size() && i < 100; i++) c.fpmix(in[i]); c.fpmix(crc_flag); c.fpmix(mix64((uint64_t) (uintptr_t) lv)); c.fpmix(hs); c.fpmix(mode * 1000003 + pin * 1009 + pout); c.fpmix(corrupt);
	InfResult one = inflate_oneshot(in, crc_flag, big);
	bool valid = !one.faulted && one.rc == 0 && one.finished;
	std::string cfg = fmt("%s%s, wrapper %d (%d optional fields), crc_flag %d, cpu %s, %zu-byte stream, schedule mode %d in %u out %u", b.src.c_str(), corrupt ? " (corrupted)" : "", b.wrapper, b.gz_optional, crc_flag, lv, in.size(), mode, pin, pout);
	PBT_CHECK(!one.faulted, "inflate:stateless:fault", "%s: %s", cfg.c_str(), one.problem.c_str());
	if (!corrupt) PBT_CHECK(valid && one.out == b.data, "inflate:stateless:data", "%s: one-shot decompression of a valid stream fails (rc %d)", cfg.c_str(), one.rc);
	InfResult st = inflate_chunked(in, crc_flag, big, 40000, [&](uint64_t i, size_t &add, size_t &cap) {
		uint64_t h = mix64(hs + i);
		if (mode == 0) { add = pin; cap = pout; }
		else if (mode == 1) { add = 1 + h % pin; cap = 1 + (h >> 20) % pout; }
		else { add = CH[h % NCH]; cap = CH[(h >> 20) % NCH]; if (cap > big) cap = big; if ((h >> 50) % 7 == 0) add = 0; }
	});
	compare(one, st, valid, one.out, cfg);
	c.nontrivial = st.calls >= 3;
	c.label(corrupt ? (valid ? "corrupted-but-still-valid" : "corrupted-invalid") : "valid");
	c.label(fmt("crc_flag=%d", crc_flag));
	if (b.gz_optional >= 2) c.label("gzip>=2-optional-fields");
	if (c.want_sample) c.sample = fmt("{\"source\":%s,\"corrupted\":%d,\"wrapper\":%d,\"crc_flag\":%d,\"cpu\":\"%s\",\"stream_bytes\":%zu,\"mode\":%d,\"in\":%u,\"out\":%u,\"calls\":%llu,\"one_shot_rc\":%d}", jstr(b.src).c_str(), (int) corrupt, b.wrapper, crc_flag, lv, in.size(), mode, pin, pout, (unsigned long long) st.calls, one.rc);
}

int main(int argc, char **argv) {
	refcrc::self_test();
	std::vector<Sub> subs = {
		{"deflate_all_splits", body_def_splits, 24, 2, nullptr, "one small input (<= 600 bytes): every single split point of the input and, separately, of the output; result decodes (zlib + reference) to the input; non-trivial: >= 3 bytes"},
		{"deflate_chunk_pairs", body_def_pairs, 24, 1, nullptr, "all pairs (input chunk, output chunk) from {0,1,2,7,8,9,15,16,17,31,32,33,255,256,257,328,329,big} incl. zero-length calls"},
		{"deflate_history", body_def_history, 48, 12, nullptr, "generated histories: refill before drain, zero-length and 1-byte buffers, flush mode changed every call, late end_of_stream, fresh memory for every chunk; then finish; every call satisfies the counter invariants, finishing calls must make progress, output decodes to the concatenated input; non-trivial: >= 3 calls with a chunk boundary inside the data"},
		{"deflate_plans", body_def_plans, 64, 70, nullptr, "inputs up to 150 KB x whole-stream call plans: chunkings of both sides (all, constant, random, boundary set, small/medium/rest), refill before drain, late end_of_stream, flush mode per call, chunk placed end- or start-flush at a guard page, and a caller that after every call that filled its output chunk offers only 1..64 bytes of the remaining input; counters, progress, decode; non-trivial: >= 3 calls"},
		{"token_encoder_slicing", body_token_encoder, 16, 220, nullptr, "encode_deflate_icf{_base,_04,_06, dispatched under every cpu level} driven directly: generated tokens (rare long codes, bursts of far matches, packed literal pairs) and the library's own tables, output pieces of 16..3000 bytes each ending at a guard page; the bits gathered over all pieces == the plain C encoder's bits in one buffer, no write outside a piece, progress; non-trivial: >= 2 pieces"},
		{"inflate_all_splits", body_inf_splits, 64, 3, nullptr, "one small valid stream (grammar/zlib/ISA-L made, raw/gzip with optional fields/zlib): every single split point of input and of output: same bytes, final state, status and crc as isal_inflate_stateless; non-trivial: header with optional fields or a match"},
		{"inflate_chunk_pairs", body_inf_pairs, 64, 1, nullptr, "all (input chunk, output chunk) pairs from the boundary set incl. zero-length calls, compared with one-shot"},
		{"inflate_history", body_inf_history, 96, 16, nullptr, "generated schedules (constant, random, boundary-set with empty calls) on valid and corrupted streams: valid -> identical to one-shot; invalid -> never reports completion; non-trivial: >= 3 calls"},
	};
	return pbt_main(argc, argv, "C07", subs);
}
