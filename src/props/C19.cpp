// C19 - gzip/zlib headers are written per RFC and parsed back losslessly, resumably
#include "igzcheck.h"
#include "ref_hdr.h"
using namespace pbt;

static void gen_hdr(Tape &t, refhdr::Gzip &g, bool big_ok) {
	g.text = t.coin();
	g.mtime = t.pick<uint32_t>({0, 1, 0x12345678, 0xFFFFFFFFu, 0x80000000u}) ^ (t.coin() ? t.bits32() : 0);
	g.xfl = (uint8_t) t.range(0, 255);
	g.os = (uint8_t) t.range(0, 255);
	uint64_t seed = t.bits64();
	if (t.coin()) {
		g.has_extra = true;
		size_t n = big_ok && t.range(0, 5) == 0 ? (size_t) t.pick<uint32_t>({65535, 65534, 4096, 300, 32768}) : (size_t) t.range(0, 60);
		for (size_t i = 0; i < n; i++) g.extra.push_back((uint8_t) (mix64(seed + i) >> 11));
	}
	if (t.coin()) { g.has_name = true; size_t n = (size_t) (t.range(0, 3) == 0 ? t.range(0, 300) : t.range(0, 20)); for (size_t i = 0; i < n; i++) g.name.push_back((char) (1 + mix64(seed * 3 + i) % 255)); }
	if (t.coin()) { g.has_comment = true; size_t n = (size_t) (t.range(0, 3) == 0 ? t.range(0, 300) : t.range(0, 20)); for (size_t i = 0; i < n; i++) g.comment.push_back((char) (1 + mix64(seed * 5 + i) % 255)); }
	g.hcrc = t.coin();
}
static std::string hdr_text(const refhdr::Gzip &g) {
	return fmt("{\"text\":%d,\"time\":%u,\"xfl\":%u,\"os\":%u,\"extra\":%s,\"name\":%s,\"comment\":%s,\"hcrc\":%d}", (int) g.text, g.mtime, g.xfl, g.os, g.has_extra ? std::to_string(g.extra.size()).c_str() : "null",
	           g.has_name ? std::to_string(g.name.size()).c_str() : "null", g.has_comment ? std::to_string(g.comment.size()).c_str() : "null", (int) g.hcrc);
}
static uint64_t hdr_fp(const refhdr::Gzip &g) {
	uint64_t h = mix64(g.mtime) ^ mix64(g.xfl * 256 + g.os) ^ mix64(g.extra.size() * 3 + g.has_extra) ^ mix64(g.name.size() * 5 + g.has_name * 2) ^ mix64(g.comment.size() * 7 + g.has_comment * 4) ^ (g.hcrc ? 0x55 : 0) ^ (g.text ? 0xAA00 : 0);
	for (uint8_t b : g.extra) h = mix64(h ^ b);
	for (char ch : g.name) h = mix64(h ^ (uint8_t) ch);
	return h;
}

// ---------------------------------------------------------------------------------------------------- writers
// the header CRC16 is computed by the dispatched crc32_gzip_refl: every header job runs under a simulated processor drawn from the header's own fields
static const char *level_for(const refhdr::Gzip &g) { return cpu::LEVEL_NAMES[mix64(((uint64_t) g.mtime << 16) ^ ((uint64_t) g.xfl << 8) ^ g.os) % cpu::N_LEVELS]; }
static void body_write_gzip(Tape &t, Ctx &c) {
	refhdr::Gzip g;
	gen_hdr(t, g, true);
	const char *cpu_lv = level_for(g);
	kern::use_level(cpu_lv);
	c.label(std::string("cpu=") + cpu_lv);
	std::vector<uint8_t> want = refhdr::write_gzip(g);
	size_t need = want.size();
	size_t avail;
	switch (t.range(0, 4)) {
	case 0: avail = need; break;
	case 1: avail = need >= 1 ? need - 1 : 0; break;
	case 2: avail = need + (size_t) t.range(1, 2); break;
	case 3: avail = t.coin() ? 0 : (need >= 2 ? need - 2 : 0); break;
	default: avail = need + (size_t) t.range(0, 100000); break;
	}
	c.fpmix(hdr_fp(g)); c.fpmix(avail);
	guard::Buf sb = guard::alloc(sizeof(struct isal_zstream), guard::END, "isal_zstream", 64, 0);
	struct isal_zstream *s = (struct isal_zstream *) sb.p;
	isal_deflate_init(s);
	guard::Buf out = guard::alloc(avail, guard::END, "output");
	memset(out.p, 0xEE, avail);
	guard::Buf hb = guard::alloc(sizeof(struct isal_gzip_header), guard::END, "isal_gzip_header", 8, 0);
	struct isal_gzip_header *h = (struct isal_gzip_header *) hb.p;
	isal_gzip_header_init(h);
	h->text = g.text; h->time = g.mtime; h->xflags = g.xfl; h->os = g.os; h->hcrc = g.hcrc;
	// igzip_lib.h documents hcrc as "Header crc or header crc flag" and isal_read_gzip_header leaves the running CRC there: a struct that was read and is
	// written again carries an arbitrary non-zero value.  The value is derived from the case itself (no tape cell), three cases in four.
	if (g.hcrc) { uint64_t hv = mix64(hdr_fp(g) ^ 0x68637263); static const uint32_t nzv[] = {2, 0x100, 0x80000000u, 0xfffffffeu}; if (hv & 3) h->hcrc = (hv & 4) ? nzv[(hv >> 3) & 3] : (((uint32_t) (hv >> 8)) | 0x10) & ~1u; }
	guard::Buf eb, nb, cb;
	if (g.has_extra) { eb = guard::alloc_copy(g.extra.data(), g.extra.size(), guard::END, "extra"); guard::set_readonly(eb); h->extra = eb.p; h->extra_len = (uint32_t) g.extra.size(); h->extra_buf_len = (uint32_t) g.extra.size(); }
	if (g.has_name) { nb = guard::alloc_copy(g.name.c_str(), g.name.size() + 1, guard::END, "name"); guard::set_readonly(nb); h->name = (char *) nb.p; h->name_buf_len = (uint32_t) g.name.size() + 1; }
	if (g.has_comment) { cb = guard::alloc_copy(g.comment.c_str(), g.comment.size() + 1, guard::END, "comment"); guard::set_readonly(cb); h->comment = (char *) cb.p; h->comment_buf_len = (uint32_t) g.comment.size() + 1; }
	guard::set_readonly(hb);
	s->next_out = out.p; s->avail_out = (uint32_t) avail;
	uint32_t to0 = s->total_out;
	uint32_t rc = 0;
	guard::Fault f = guard::call([&] { rc = isal_write_gzip_header(s, h); });
	std::string what = fmt("isal_write_gzip_header(%s, avail_out %zu, needed %zu)", hdr_text(g).c_str(), avail, need);
	PBT_CHECK(!f.faulted, "hdr:write_gzip", "%s: %s", what.c_str(), f.describe().c_str());
	PBT_CHECK(guard::canaries_ok(out), "hdr:write_gzip", "%s wrote outside the output buffer", what.c_str());
	if (avail < need) {
		PBT_CHECK(rc == need, "hdr:write_gzip", "%s returned %u instead of the required size", what.c_str(), rc);
		PBT_CHECK(s->next_out == out.p && s->avail_out == avail && s->total_out == to0, "hdr:write_gzip", "%s: refused but the stream was modified", what.c_str());
		for (size_t i = 0; i < avail; i++) PBT_CHECK(out.p[i] == 0xEE, "hdr:write_gzip", "%s: refused but output byte %zu was written", what.c_str(), i);
		c.label("too-small");
	} else {
		PBT_CHECK(rc == 0, "hdr:write_gzip", "%s returned %u with enough space", what.c_str(), rc);
		PBT_CHECK((size_t) (s->next_out - out.p) == need && s->avail_out == avail - need && s->total_out == to0 + need, "hdr:write_gzip", "%s: counters not advanced by the header size (%td)", what.c_str(), s->next_out - out.p);
		for (size_t i = 0; i < need; i++) PBT_CHECK(out.p[i] == want[i], "hdr:write_gzip:layout", "%s: byte %zu is %02x, RFC 1952 layout has %02x", what.c_str(), i, out.p[i], want[i]);
		for (size_t i = need; i < avail && i < need + 64; i++) PBT_CHECK(out.p[i] == 0xEE, "hdr:write_gzip", "%s wrote past the header", what.c_str());
		// independent parser: zlib reads the same field values
		std::vector<uint8_t> whole(out.p, out.p + need);
		static const uint8_t EMPTY[] = {0x03, 0x00, 0, 0, 0, 0, 0, 0, 0, 0};
		whole.insert(whole.end(), EMPTY, EMPTY + 10);
		z_stream z;
		memset(&z, 0, sizeof z);
		inflateInit2(&z, 31);
		gz_header zh;
		memset(&zh, 0, sizeof zh);
		std::vector<uint8_t> zx(70000), zn(400), zc(400);
		zh.extra = zx.data(); zh.extra_max = (uInt) zx.size(); zh.name = zn.data(); zh.name_max = (uInt) zn.size(); zh.comment = zc.data(); zh.comm_max = (uInt) zc.size();
		inflateGetHeader(&z, &zh);
		uint8_t ob[16];
		z.next_in = whole.data(); z.avail_in = (uInt) whole.size(); z.next_out = ob; z.avail_out = sizeof ob;
		int zr = inflate(&z, Z_FINISH);
		inflateEnd(&z);
		PBT_CHECK(zr == Z_STREAM_END && zh.done == 1, "hdr:write_gzip:zlib", "%s: zlib does not accept the header (inflate %d, done %d)", what.c_str(), zr, zh.done);
		PBT_CHECK((zh.text != 0) == g.text && (uint32_t) zh.time == g.mtime && zh.xflags == g.xfl && zh.os == g.os && (zh.hcrc != 0) == g.hcrc, "hdr:write_gzip:zlib", "%s: zlib reads text %d time %lu xfl %d os %d hcrc %d", what.c_str(), zh.text, zh.time, zh.xflags, zh.os, zh.hcrc);
		if (g.has_extra) PBT_CHECK(zh.extra_len == g.extra.size() && memcmp(zx.data(), g.extra.data(), g.extra.size()) == 0, "hdr:write_gzip:zlib", "%s: zlib reads a different extra field (len %u)", what.c_str(), zh.extra_len);
		if (g.has_name) PBT_CHECK(g.name == (const char *) zn.data(), "hdr:write_gzip:zlib", "%s: zlib reads a different name", what.c_str());
		if (g.has_comment) PBT_CHECK(g.comment == (const char *) zc.data(), "hdr:write_gzip:zlib", "%s: zlib reads a different comment", what.c_str());
		c.label("written");
	}
	int nopt = g.has_extra + g.has_name + g.has_comment + g.hcrc;
	c.nontrivial = nopt >= 2 || (avail + 2 >= need && avail <= need + 2);
	if (c.want_sample) c.sample = fmt("{\"header\":%s,\"avail_out\":%zu,\"needed\":%zu,\"rc\":%u}", hdr_text(g).c_str(), avail, need, rc);
}

static void body_write_zlib(Tape &t, Ctx &c) {
	refhdr::Zlib z;
	z.cinfo = (int) t.range(0, 15);
	z.flevel = (int) t.range(0, 3);
	z.fdict = t.coin();
	z.dictid = t.pick<uint32_t>({0x11223344, 1, 0x80000000u, 0xFFFFFFFFu, 0}) ^ (t.coin() ? t.bits32() : 0);
	std::vector<uint8_t> want = refhdr::write_zlib(z);
	size_t need = want.size();
	size_t avail = (size_t) t.pick<uint32_t>({0, 1, 2, 3, 4, 5, 6, 7, 8, 100});
	c.fpmix(z.cinfo * 100 + z.flevel * 10 + z.fdict); c.fpmix(z.dictid); c.fpmix(avail);
	guard::Buf sb = guard::alloc(sizeof(struct isal_zstream), guard::END, "isal_zstream", 64, 0);
	struct isal_zstream *s = (struct isal_zstream *) sb.p;
	isal_deflate_init(s);
	guard::Buf out = guard::alloc(avail, guard::END, "output");
	memset(out.p, 0xEE, avail);
	struct isal_zlib_header h;
	isal_zlib_header_init(&h);
	h.info = z.cinfo; h.level = z.flevel; h.dict_flag = z.fdict; h.dict_id = z.dictid;
	s->next_out = out.p; s->avail_out = (uint32_t) avail;
	uint32_t rc = 0;
	guard::Fault f = guard::call([&] { rc = isal_write_zlib_header(s, &h); });
	std::string what = fmt("isal_write_zlib_header(info %d level %d dict_flag %d dict_id %08x, avail_out %zu)", z.cinfo, z.flevel, (int) z.fdict, z.dictid, avail);
	PBT_CHECK(!f.faulted && guard::canaries_ok(out), "hdr:write_zlib", "%s: %s", what.c_str(), f.faulted ? f.describe().c_str() : "wrote outside the output buffer");
	if (avail < need) {
		PBT_CHECK(rc == need, "hdr:write_zlib", "%s returned %u instead of the required size %zu", what.c_str(), rc, need);
		PBT_CHECK(s->next_out == out.p && s->avail_out == avail && s->total_out == 0, "hdr:write_zlib", "%s: refused but the stream was modified", what.c_str());
		for (size_t i = 0; i < avail; i++) PBT_CHECK(out.p[i] == 0xEE, "hdr:write_zlib", "%s: refused but output was written", what.c_str());
	} else {
		PBT_CHECK(rc == 0 && (size_t) (s->next_out - out.p) == need && s->total_out == need, "hdr:write_zlib", "%s: rc %u, advanced %td", what.c_str(), rc, s->next_out - out.p);
		// CMF, FDICT and FLEVEL are fixed by the arguments; FCHECK is any value that makes CMF*256+FLG a multiple of 31 (0 and 31 both qualify when it is already one)
		PBT_CHECK(out.p[0] == want[0], "hdr:write_zlib:layout", "%s: CMF is %02x, RFC 1950 layout has %02x", what.c_str(), out.p[0], want[0]);
		PBT_CHECK((out.p[1] & 0xE0) == (want[1] & 0xE0), "hdr:write_zlib:layout", "%s: FLG is %02x: FLEVEL/FDICT bits differ from %02x", what.c_str(), out.p[1], want[1]);
		PBT_CHECK(((out.p[0] << 8) | out.p[1]) % 31 == 0, "hdr:write_zlib:layout", "%s: FCHECK wrong: %02x%02x is not a multiple of 31", what.c_str(), out.p[0], out.p[1]);
		for (size_t i = 2; i < need; i++) PBT_CHECK(out.p[i] == want[i], "hdr:write_zlib:dictid-byte-order", "%s: byte %zu is %02x, RFC 1950 layout has %02x (DICTID is stored most significant byte first)", what.c_str(), i, out.p[i], want[i]);
		if (z.cinfo <= 7) {
			// zlib: header accepted; with FDICT it stops with Z_NEED_DICT and reports the id
			std::vector<uint8_t> whole(out.p, out.p + need);
			static const uint8_t EMPTY[] = {0x03, 0x00, 0, 0, 0, 1};
			whole.insert(whole.end(), EMPTY, EMPTY + 6);
			z_stream zs;
			memset(&zs, 0, sizeof zs);
			inflateInit2(&zs, 15);
			uint8_t ob[16];
			zs.next_in = whole.data(); zs.avail_in = (uInt) whole.size(); zs.next_out = ob; zs.avail_out = sizeof ob;
			int zr = inflate(&zs, Z_FINISH);
			unsigned long ad = zs.adler;
			inflateEnd(&zs);
			if (z.fdict) PBT_CHECK(zr == Z_NEED_DICT && (uint32_t) ad == z.dictid, "hdr:write_zlib:dictid-byte-order", "%s: zlib answers %d and dictionary id %08lx", what.c_str(), zr, ad);
			else PBT_CHECK(zr == Z_STREAM_END, "hdr:write_zlib:zlib", "%s: zlib inflate returns %d", what.c_str(), zr);
		}
	}
	c.nontrivial = z.fdict || avail == need || avail + 1 == need;
	if (c.want_sample) c.sample = fmt("{\"info\":%d,\"level\":%d,\"dict_flag\":%d,\"dict_id\":%u,\"avail_out\":%zu,\"rc\":%u,\"bytes\":%s}", z.cinfo, z.flevel, (int) z.fdict, z.dictid, avail, rc, jhex(out.p, std::min(avail, need)).c_str());
}

// ---------------------------------------------------------------------------------------------------- readers
struct ReadCfg { int xbuf, nbuf, cbuf; }; // 0 NULL, 1 exact, 2 undersized (grow protocol), 3 generous (64 KiB and more: the *_buf_len fields are 32 bits wide)

static void body_read_gzip(Tape &t, Ctx &c) {
	refhdr::Gzip g;
	gen_hdr(t, g, t.range(0, 3) == 0);
	const char *cpu_lv = level_for(g);
	kern::use_level(cpu_lv);
	c.label(std::string("cpu=") + cpu_lv);
	bool from_zlib = t.range(0, 3) == 0 && g.extra.size() < 60000;
	bool bad_hcrc = g.hcrc && t.range(0, 5) == 0;
	std::vector<uint8_t> hdr;
	if (from_zlib) {
		// produced by zlib's deflateSetHeader
		gz_header zh;
		memset(&zh, 0, sizeof zh);
		zh.text = g.text; zh.time = g.mtime; zh.os = g.os; zh.hcrc = g.hcrc;
		if (g.has_extra) { zh.extra = g.extra.data(); zh.extra_len = (uInt) g.extra.size(); }
		std::string nm = g.name, cm = g.comment;
		if (g.has_name) zh.name = (Bytef *) nm.c_str();
		if (g.has_comment) zh.comment = (Bytef *) cm.c_str();
		igz::ZDefOpts zo;
		zo.wbits = 31; zo.level = 6; zo.gzh = &zh;
		uint8_t d0[3] = {'a', 'b', 'c'};
		std::vector<uint8_t> whole = igz::zlib_deflate(d0, 3, zo);
		refhdr::Parsed ph;
		if (whole.empty() || refhdr::parse_gzip(whole.data(), whole.size(), ph) != 1) throw OracleBug("zlib produced a header the reference parser cannot read");
		hdr.assign(whole.begin(), whole.begin() + ph.len);
		g.xfl = ph.g.xfl; // chosen by zlib
		if (g.has_extra && g.extra.empty()) { g.has_extra = ph.g.has_extra; }
		bad_hcrc = false;
	} else hdr = refhdr::write_gzip(g, bad_hcrc);
	size_t hlen = hdr.size();
	// deflate bytes follow the header
	std::vector<uint8_t> in = hdr;
	for (int i = 0; i < 12; i++) in.push_back((uint8_t) (0x30 + i));
	ReadCfg rc{(int) t.range(0, 3), (int) t.range(0, 3), (int) t.range(0, 3)};
	int split_mode = (int) t.range(0, 3); // 0 one piece, 1 single split, 2 one byte at a time, 3 random pieces
	size_t split = (size_t) t.range(0, hlen);
	uint64_t sseed = t.bits64();
	c.fpmix(hdr_fp(g)); c.fpmix(from_zlib * 2 + bad_hcrc); c.fpmix(rc.xbuf * 9 + rc.nbuf * 3 + rc.cbuf); c.fpmix(split_mode * 100000 + (split_mode == 1 ? split : 0)); if (split_mode == 3) c.fpmix(sseed);
	guard::Buf sb = guard::alloc(sizeof(struct inflate_state), guard::END, "inflate_state", 64, 0);
	struct inflate_state *st = (struct inflate_state *) sb.p;
	isal_inflate_init(st);
	struct isal_gzip_header h;
	memset(&h, 0xA7, sizeof h); // garbage first, as the in-tree test does
	isal_gzip_header_init(&h);
	// caller buffers (guard-paged): exact size, or deliberately undersized and grown on overflow
	std::vector<uint8_t> xstore, nstore, cstore;
	guard::Buf xb, nb2, cb2;
	auto setbuf = [&](guard::Buf &b, std::vector<uint8_t> &store, size_t len, const char *nm) { b = guard::alloc(len, guard::END, nm); if (len && !store.empty()) memcpy(b.p, store.data(), std::min(len, store.size())); };
	static const size_t GEN[] = {65536, 65537, 70000, 131072, 65536 + 300};
	size_t xl = rc.xbuf == 0 ? 0 : rc.xbuf == 1 ? g.extra.size() : rc.xbuf == 2 ? g.extra.size() / 2 : std::max(GEN[sseed % 5], g.extra.size());
	size_t nl = rc.nbuf == 0 ? 0 : rc.nbuf == 1 ? g.name.size() + 1 : rc.nbuf == 2 ? (g.name.size() + 1) / 2 : GEN[(sseed >> 8) % 5];
	size_t cl = rc.cbuf == 0 ? 0 : rc.cbuf == 1 ? g.comment.size() + 1 : rc.cbuf == 2 ? (g.comment.size() + 1) / 3 : GEN[(sseed >> 16) % 5];
	if (rc.xbuf) { setbuf(xb, xstore, xl, "extra buffer"); h.extra = xb.p; h.extra_buf_len = (uint32_t) xl; }
	if (rc.nbuf) { setbuf(nb2, nstore, nl, "name buffer"); h.name = (char *) nb2.p; h.name_buf_len = (uint32_t) nl; }
	if (rc.cbuf) { setbuf(cb2, cstore, cl, "comment buffer"); h.comment = (char *) cb2.p; h.comment_buf_len = (uint32_t) cl; }
	std::string what = fmt("isal_read_gzip_header(%s%s%s, buffers x/n/c %d/%d/%d, split mode %d at %zu)", hdr_text(g).c_str(), from_zlib ? " from zlib" : "", bad_hcrc ? " with corrupted HCRC" : "", rc.xbuf, rc.nbuf, rc.cbuf, split_mode, split);
	size_t pos = 0, piece = 0;
	int ret = 0, overflows = 0, pieces = 0;
	std::vector<uint8_t> pending;
	guard::Buf ib;
	bool have = false;
	for (int iter = 0; iter < 200000; iter++) {
		if (ret == 0 || ret == ISAL_END_INPUT) {
			// hand over the next piece (fresh exact-size mapping, unconsumed remainder relocated)
			size_t add;
			if (split_mode == 0) add = in.size() - pos;
			else if (split_mode == 1) add = piece == 0 ? split : in.size() - pos;
			else if (split_mode == 2) add = 1;
			else add = 1 + mix64(sseed + piece) % 9;
			if (add > in.size() - pos) add = in.size() - pos;
			if (iter > 0 && add == 0) { ret = ISAL_END_INPUT; break; }
			pending.insert(pending.end(), in.begin() + pos, in.begin() + pos + add);
			pos += add; piece++; pieces++;
			if (have) guard::retire(ib);
			ib = guard::alloc_copy(pending.data(), pending.size(), guard::END, "input piece");
			guard::set_readonly(ib);
			have = true;
			st->next_in = ib.p; st->avail_in = (uint32_t) pending.size();
		}
		uint32_t ai = st->avail_in;
		guard::Fault f = guard::call([&] { ret = isal_read_gzip_header(st, &h); });
		PBT_CHECK(!f.faulted, "hdr:read_gzip:memory", "%s: %s", what.c_str(), f.describe().c_str());
		PBT_CHECK((!rc.xbuf || guard::canaries_ok(xb)) && (!rc.nbuf || guard::canaries_ok(nb2)) && (!rc.cbuf || guard::canaries_ok(cb2)), "hdr:read_gzip:memory", "%s wrote outside a caller buffer", what.c_str());
		size_t used = ai - st->avail_in;
		pending.erase(pending.begin(), pending.begin() + used);
		PBT_CHECK(ret == 0 || ret == ISAL_END_INPUT || ret == ISAL_NAME_OVERFLOW || ret == ISAL_COMMENT_OVERFLOW || ret == ISAL_EXTRA_OVERFLOW || ret == ISAL_INVALID_WRAPPER || ret == ISAL_UNSUPPORTED_METHOD || ret == ISAL_INCORRECT_CHECKSUM,
		          "hdr:read_gzip:code", "%s returned undocumented %d", what.c_str(), ret);
		if (ret == ISAL_EXTRA_OVERFLOW || ret == ISAL_NAME_OVERFLOW || ret == ISAL_COMMENT_OVERFLOW) {
			// grow-and-call-again protocol (realloc semantics: earlier bytes are kept)
			overflows++;
			PBT_CHECK(overflows < 64, "hdr:read_gzip:resume", "%s: overflow reported again and again although the buffer keeps growing", what.c_str());
			if (ret == ISAL_EXTRA_OVERFLOW) { PBT_CHECK(rc.xbuf == 2, "hdr:read_gzip:resume", "%s: EXTRA_OVERFLOW with a sufficient/absent buffer", what.c_str()); xstore.assign(xb.p, xb.p + xl); xl = xl + 1 + g.extra.size() / 2; setbuf(xb, xstore, xl, "extra buffer"); h.extra = xb.p; h.extra_buf_len = (uint32_t) xl; }
			if (ret == ISAL_NAME_OVERFLOW) { PBT_CHECK(rc.nbuf == 2, "hdr:read_gzip:resume", "%s: NAME_OVERFLOW with a sufficient/absent buffer", what.c_str()); nstore.assign(nb2.p, nb2.p + nl); nl = nl + 1 + g.name.size() / 2; setbuf(nb2, nstore, nl, "name buffer"); h.name = (char *) nb2.p; h.name_buf_len = (uint32_t) nl; }
			if (ret == ISAL_COMMENT_OVERFLOW) { PBT_CHECK(rc.cbuf == 2, "hdr:read_gzip:resume", "%s: COMMENT_OVERFLOW with a sufficient/absent buffer", what.c_str()); cstore.assign(cb2.p, cb2.p + cl); cl = cl + 1 + g.comment.size() / 2; setbuf(cb2, cstore, cl, "comment buffer"); h.comment = (char *) cb2.p; h.comment_buf_len = (uint32_t) cl; }
			continue;
		}
		if (ret != ISAL_END_INPUT) break;
		if (pos >= in.size() && pending.empty()) break;
	}
	if (bad_hcrc) {
		PBT_CHECK(ret == ISAL_INCORRECT_CHECKSUM, "hdr:read_gzip:hcrc", "%s: a wrong header CRC16 is answered with %d", what.c_str(), ret);
		c.label("bad-hcrc-rejected");
	} else {
		PBT_CHECK(ret == ISAL_DECOMP_OK, "hdr:read_gzip:status", "%s: ended with %d after %d pieces", what.c_str(), ret, pieces);
		size_t consumed = pos - pending.size();
		PBT_CHECK(consumed == hlen, "hdr:read_gzip:position", "%s: stops after %zu bytes, the compressed data starts at %zu", what.c_str(), consumed, hlen);
		PBT_CHECK((h.text != 0) == g.text && h.time == g.mtime && h.xflags == g.xfl && h.os == g.os, "hdr:read_gzip:fields", "%s: read text %u time %u xflags %u os %u", what.c_str(), h.text, h.time, h.xflags, h.os);
		if (g.has_extra) {
			PBT_CHECK(h.extra_len == g.extra.size(), "hdr:read_gzip:fields", "%s: extra_len %u, header has %zu", what.c_str(), h.extra_len, g.extra.size());
			if (rc.xbuf) PBT_CHECK(memcmp(xb.p, g.extra.data(), g.extra.size()) == 0, "hdr:read_gzip:fields", "%s: extra field bytes differ", what.c_str());
		} else PBT_CHECK(h.extra_len == 0, "hdr:read_gzip:fields", "%s: extra_len %u for a header without FEXTRA", what.c_str(), h.extra_len);
		if (g.has_name && rc.nbuf) PBT_CHECK(nl > g.name.size() && memcmp(nb2.p, g.name.c_str(), g.name.size() + 1) == 0, "hdr:read_gzip:fields", "%s: name differs (or is not NUL terminated)", what.c_str());
		if (g.has_comment && rc.cbuf) PBT_CHECK(cl > g.comment.size() && memcmp(cb2.p, g.comment.c_str(), g.comment.size() + 1) == 0, "hdr:read_gzip:fields", "%s: comment differs (or is not NUL terminated)", what.c_str());
	}
	int nopt = g.has_extra + g.has_name + g.has_comment + g.hcrc;
	c.nontrivial = nopt >= 2 || overflows > 0 || (pieces >= 2);
	if (overflows) c.label("overflow-resume");
	if (pieces >= 2) c.label("split-header");
	if (from_zlib) c.label("header-from-zlib");
	if (c.want_sample) c.sample = fmt("{\"header\":%s,\"from_zlib\":%d,\"buffers\":[%d,%d,%d],\"split_mode\":%d,\"pieces\":%d,\"overflow_resumes\":%d,\"ret\":%d}", hdr_text(g).c_str(), (int) from_zlib, rc.xbuf, rc.nbuf, rc.cbuf, split_mode, pieces, overflows, ret);
}

static void body_read_zlib(Tape &t, Ctx &c) {
	refhdr::Zlib z;
	z.cinfo = (int) t.range(0, 15);
	z.flevel = (int) t.range(0, 3);
	z.fdict = t.coin();
	z.dictid = t.pick<uint32_t>({0x11223344, 1, 0x80000000u, 0xFFFFFFFFu}) ^ (t.coin() ? t.bits32() : 0);
	bool from_zlib = z.fdict && t.coin();
	int fault = (int) t.pick<uint32_t>({0, 0, 0, 1, 2});
	std::vector<uint8_t> hdr;
	if (from_zlib) {
		// a real zlib stream with a preset dictionary: DICTID is adler32(dictionary)
		uint8_t dict[40];
		uint64_t ds = t.bits64();
		for (int i = 0; i < 40; i++) dict[i] = (uint8_t) (mix64(ds + i) >> 9);
		igz::ZDefOpts zo;
		zo.wbits = 15; zo.level = 6; zo.dict = dict; zo.dict_len = 40;
		uint8_t d0[4] = {'d', 'a', 't', 'a'};
		std::vector<uint8_t> whole = igz::zlib_deflate(d0, 4, zo);
		if (whole.size() < 6) throw OracleBug("zlib deflate with dictionary failed");
		hdr.assign(whole.begin(), whole.begin() + 6);
		z.cinfo = hdr[0] >> 4; z.flevel = hdr[1] >> 6; z.dictid = (uint32_t) adler32(adler32(0, 0, 0), dict, 40);
		fault = 0;
	} else {
		if (fault == 2) z.cm = (int) t.pick<uint32_t>({0, 7, 9, 15});
		hdr = refhdr::write_zlib(z, fault == 1);
	}
	size_t hlen = hdr.size();
	std::vector<uint8_t> in = hdr;
	for (int i = 0; i < 8; i++) in.push_back((uint8_t) (0x40 + i));
	int split_mode = (int) t.range(0, 2);
	size_t split = (size_t) t.range(0, hlen);
	c.fpmix(z.cinfo * 100 + z.flevel * 10 + z.fdict); c.fpmix(z.dictid); c.fpmix(fault); c.fpmix(from_zlib); c.fpmix(split_mode * 100 + split);
	guard::Buf sb = guard::alloc(sizeof(struct inflate_state), guard::END, "inflate_state", 64, 0);
	struct inflate_state *st = (struct inflate_state *) sb.p;
	isal_inflate_init(st);
	struct isal_zlib_header h;
	memset(&h, 0xA7, sizeof h);
	isal_zlib_header_init(&h);
	std::string what = fmt("isal_read_zlib_header(info %d level %d dict %d id %08x%s%s, split mode %d at %zu)", z.cinfo, z.flevel, (int) z.fdict, z.dictid, from_zlib ? " from zlib" : "", fault == 1 ? " bad FCHECK" : fault == 2 ? " CM!=8" : "", split_mode, split);
	size_t pos = 0;
	std::vector<uint8_t> pending;
	int ret = 0, pieces = 0;
	guard::Buf ib;
	bool have = false;
	for (int iter = 0; iter < 100; iter++) {
		size_t add = split_mode == 0 ? in.size() - pos : split_mode == 1 ? (iter == 0 ? split : in.size() - pos) : 1;
		if (add > in.size() - pos) add = in.size() - pos;
		pending.insert(pending.end(), in.begin() + pos, in.begin() + pos + add);
		pos += add; pieces++;
		if (have) guard::retire(ib);
		ib = guard::alloc_copy(pending.data(), pending.size(), guard::END, "input piece");
		guard::set_readonly(ib);
		have = true;
		st->next_in = ib.p; st->avail_in = (uint32_t) pending.size();
		uint32_t ai = st->avail_in;
		guard::Fault f = guard::call([&] { ret = isal_read_zlib_header(st, &h); });
		PBT_CHECK(!f.faulted, "hdr:read_zlib:memory", "%s: %s", what.c_str(), f.describe().c_str());
		pending.erase(pending.begin(), pending.begin() + (ai - st->avail_in));
		PBT_CHECK(ret == 0 || ret == ISAL_END_INPUT || ret == ISAL_UNSUPPORTED_METHOD || ret == ISAL_INCORRECT_CHECKSUM, "hdr:read_zlib:code", "%s returned undocumented %d", what.c_str(), ret);
		if (ret != ISAL_END_INPUT || pos >= in.size()) break;
	}
	if (fault == 2) PBT_CHECK(ret == ISAL_UNSUPPORTED_METHOD, "hdr:read_zlib:status", "%s: CM != 8 answered with %d", what.c_str(), ret);
	else if (fault == 1) PBT_CHECK(ret == ISAL_INCORRECT_CHECKSUM, "hdr:read_zlib:status", "%s: bad FCHECK answered with %d", what.c_str(), ret);
	else {
		PBT_CHECK(ret == ISAL_DECOMP_OK, "hdr:read_zlib:status", "%s: ended with %d", what.c_str(), ret);
		PBT_CHECK(pos - pending.size() == hlen, "hdr:read_zlib:position", "%s: stops after %zu bytes, header is %zu", what.c_str(), pos - pending.size(), hlen);
		PBT_CHECK((int) h.info == z.cinfo && (int) h.level == z.flevel && (h.dict_flag != 0) == z.fdict, "hdr:read_zlib:fields", "%s: read info %u level %u dict_flag %u", what.c_str(), h.info, h.level, h.dict_flag);
		if (z.fdict) PBT_CHECK(h.dict_id == z.dictid, "hdr:read_zlib:dictid-byte-order", "%s: read dict_id %08x (RFC 1950 stores it most significant byte first)", what.c_str(), h.dict_id);
	}
	c.nontrivial = z.fdict || pieces >= 2;
	if (from_zlib) c.label("header-from-zlib");
	if (c.want_sample) c.sample = fmt("{\"bytes\":%s,\"split_mode\":%d,\"split\":%zu,\"ret\":%d,\"dict_id\":%u}", jhex(hdr.data(), hdr.size()).c_str(), split_mode, split, ret, h.dict_id);
}

// arbitrary bytes as headers
static void body_read_arbitrary(Tape &t, Ctx &c) {
	bool gz = t.coin();
	size_t n = (size_t) t.range(0, 120);
	uint64_t s = t.bits64();
	std::vector<uint8_t> in(n);
	for (size_t i = 0; i < n; i++) in[i] = (uint8_t) (mix64(s + i) >> 11);
	if (t.coin() && n >= 4) { if (gz) { in[0] = 0x1f; in[1] = 0x8b; uint32_t cmr = t.raw(); in[2] = (cmr & 3) ? 8 : (uint8_t) (cmr >> 2); in[3] = (uint8_t) t.range(0, 255); } else { in[0] = 0x78; in[1] = (uint8_t) (in[1] - (((in[0] << 8) | in[1]) % 31)); if (((in[0] << 8) | in[1]) % 31) in[1] += 31; } }
	size_t bl = (size_t) t.range(0, 40);
	int chunk = (int) t.pick<uint32_t>({0, 1, 3, 7});
	c.fpmix(gz); c.fpmix(n); c.fpmix(s); c.fpmix(bl); c.fpmix(chunk);
	guard::Buf sb = guard::alloc(sizeof(struct inflate_state), guard::END, "inflate_state", 64, 0);
	struct inflate_state *st = (struct inflate_state *) sb.p;
	isal_inflate_init(st);
	struct isal_gzip_header h;
	struct isal_zlib_header zh;
	isal_gzip_header_init(&h);
	isal_zlib_header_init(&zh);
	guard::Buf xb = guard::alloc(bl, guard::END, "extra buffer"), nb = guard::alloc(bl, guard::END, "name buffer"), cb = guard::alloc(bl, guard::END, "comment buffer");
	if (bl) { h.extra = xb.p; h.extra_buf_len = (uint32_t) bl; h.name = (char *) nb.p; h.name_buf_len = (uint32_t) bl; h.comment = (char *) cb.p; h.comment_buf_len = (uint32_t) bl; }
	size_t pos = 0;
	int ret = 0;
	std::vector<uint8_t> pending;
	for (int iter = 0; iter < 400; iter++) {
		size_t add = chunk == 0 ? n - pos : std::min<size_t>(chunk, n - pos);
		pending.insert(pending.end(), in.begin() + pos, in.begin() + pos + add);
		pos += add;
		guard::Buf ib = guard::alloc_copy(pending.data(), pending.size(), guard::END, "input piece");
		guard::set_readonly(ib);
		st->next_in = ib.p; st->avail_in = (uint32_t) pending.size();
		uint32_t ai = st->avail_in;
		guard::Fault f = guard::call([&] { ret = gz ? isal_read_gzip_header(st, &h) : isal_read_zlib_header(st, &zh); });
		PBT_CHECK(!f.faulted, "hdr:read_arbitrary:memory", "%s on %zu arbitrary bytes (%s...): %s", gz ? "isal_read_gzip_header" : "isal_read_zlib_header", n, jhex(in.data(), n, 16).c_str(), f.describe().c_str());
		PBT_CHECK(guard::canaries_ok(xb) && guard::canaries_ok(nb) && guard::canaries_ok(cb), "hdr:read_arbitrary:memory", "header reader wrote outside a %zu-byte caller buffer", bl);
		PBT_CHECK(st->avail_in <= ai, "hdr:read_arbitrary:memory", "avail_in grew");
		pending.erase(pending.begin(), pending.begin() + (ai - st->avail_in));
		guard::retire(ib);
		bool ok = ret == 0 || ret == ISAL_END_INPUT || ret == ISAL_INVALID_WRAPPER || ret == ISAL_UNSUPPORTED_METHOD || ret == ISAL_INCORRECT_CHECKSUM || (gz && (ret == ISAL_NAME_OVERFLOW || ret == ISAL_COMMENT_OVERFLOW || ret == ISAL_EXTRA_OVERFLOW));
		PBT_CHECK(ok, "hdr:read_arbitrary:code", "undocumented status %d from %s", ret, gz ? "isal_read_gzip_header" : "isal_read_zlib_header");
		if (ret != ISAL_END_INPUT || pos >= n) break;
	}
	// exact classification from an independent RFC 1952 / RFC 1950 reading of the same bytes
	if (gz) {
		refhdr::Parsed ph;
		int pr = refhdr::parse_gzip(in.data(), n, ph);
		const char *hx = "";
		std::string hs = jhex(in.data(), n, 16);
		hx = hs.c_str();
		if (pr == -1) PBT_CHECK(ret == ISAL_INVALID_WRAPPER, "hdr:read_arbitrary:class", "gzip header %s with ID bytes %02x %02x: status %d, not ISAL_INVALID_WRAPPER", hx, in[0], in[1], ret);
		if (pr == -2) PBT_CHECK(ret == ISAL_UNSUPPORTED_METHOD, "hdr:read_arbitrary:class", "gzip header %s with CM = 0x%02x (only 8 = deflate is defined): status %d, not ISAL_UNSUPPORTED_METHOD", hx, in[2], ret);
		// (with caller buffers an optional field may already be reported as too long before the header is complete)
		if (pr == 0) PBT_CHECK(ret == ISAL_END_INPUT || (bl > 0 && (ret == ISAL_NAME_OVERFLOW || ret == ISAL_COMMENT_OVERFLOW || ret == ISAL_EXTRA_OVERFLOW)), "hdr:read_arbitrary:class", "incomplete gzip header %s (%zu bytes, caller buffers of %zu bytes): status %d, not ISAL_END_INPUT", hx, n, bl, ret);
		if (pr == 1 && !ph.hcrc_ok) PBT_CHECK(ret != 0, "hdr:read_arbitrary:class", "gzip header %s with a wrong header CRC16 accepted", hx);
		if (ret == 0) PBT_CHECK(pr == 1 && ph.hcrc_ok, "hdr:read_arbitrary:class", "isal_read_gzip_header accepted %s, the reference parser says %d", hx, pr);
		if (pr == 1 && ph.hcrc_ok && bl == 0) PBT_CHECK(ret == 0, "hdr:read_arbitrary:class", "complete valid gzip header %s (no caller buffers): status %d", hx, ret);
		c.label(fmt("ref-parse=%d", pr));
	} else if (n >= 2) {
		bool cm_ok = (in[0] & 15) == 8, fcheck_ok = ((in[0] << 8) | in[1]) % 31 == 0;
		if (!cm_ok) PBT_CHECK(ret == ISAL_UNSUPPORTED_METHOD || ret == ISAL_INCORRECT_CHECKSUM, "hdr:read_arbitrary:class", "zlib header %02x %02x with CM != 8: status %d", in[0], in[1], ret);
		if (cm_ok && !fcheck_ok) PBT_CHECK(ret == ISAL_INCORRECT_CHECKSUM, "hdr:read_arbitrary:class", "zlib header %02x %02x fails FCHECK: status %d, not ISAL_INCORRECT_CHECKSUM", in[0], in[1], ret);
		if (ret == 0) PBT_CHECK(cm_ok && fcheck_ok && (!(in[1] & 0x20) || n >= 6), "hdr:read_arbitrary:class", "isal_read_zlib_header accepted %02x %02x (%zu bytes)", in[0], in[1], n);
		if (cm_ok && fcheck_ok && (!(in[1] & 0x20) || n >= 6)) PBT_CHECK(ret == 0, "hdr:read_arbitrary:class", "valid zlib header %02x %02x (%zu bytes): status %d", in[0], in[1], n, ret);
	}
	c.nontrivial = n >= 10;
	c.label(fmt("ret=%d", ret));
	if (c.want_sample) c.sample = fmt("{\"kind\":\"%s\",\"bytes\":%s,\"buffer_len\":%zu,\"chunk\":%d,\"ret\":%d}", gz ? "gzip" : "zlib", jhex(in.data(), n, 24).c_str(), bl, chunk, ret);
}

int main(int argc, char **argv) {
	refcrc::self_test();
	std::vector<Sub> subs = {
		{"write_gzip", body_write_gzip, 32, 4, nullptr, "generated field values and optional-field subsets (extra up to 65535 bytes) x output sizes around the required size: bytes == RFC 1952 layout from an independent writer, zlib inflateGetHeader reads the same values, too-small output -> required size and untouched stream; non-trivial: >= 2 optional fields or avail_out within 2 of the need"},
		{"write_zlib", body_write_zlib, 16, 2, nullptr, "info 0..15, level, dict flag/id x output sizes 0..8: bytes == RFC 1950 layout (FCHECK, DICTID most significant byte first), zlib agrees (Z_NEED_DICT + id)"},
		{"read_gzip", body_read_gzip, 40, 6, nullptr, "headers from the reference writer and from zlib's deflateSetHeader read back with isal_read_gzip_header: one piece / every single split / one byte at a time / random pieces, caller buffers NULL / exact / undersized with the grow-and-call-again protocol / 64 KiB and larger, corrupted HCRC rejected; fields equal, stops at the first deflate byte; non-trivial: >= 2 optional fields, a split or an overflow-resume"},
		{"read_zlib", body_read_zlib, 24, 3, nullptr, "zlib headers (incl. real zlib streams with preset dictionary) read with isal_read_zlib_header under every split: fields, dict id byte order, FCHECK and CM rejected"},
		{"read_arbitrary", body_read_arbitrary, 16, 3, nullptr, "arbitrary bytes (half with a plausible magic) as gzip/zlib headers: documented status, no out-of-bounds access on guard-paged input and caller buffers"},
	};
	return pbt_main(argc, argv, "C19", subs);
}
