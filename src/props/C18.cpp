// C18 - custom Huffman tables built from any histogram are valid and usable
#include "igzcheck.h"
#include "datagen.h"
extern "C" {
void isal_update_histogram_base(uint8_t *, int, struct isal_huff_histogram *);
void isal_update_histogram_01(uint8_t *, int, struct isal_huff_histogram *);
void isal_update_histogram_04(uint8_t *, int, struct isal_huff_histogram *);
}
using namespace pbt;

static struct isal_huff_histogram g_hist;

static std::string gen_hist(Tape &t, struct isal_huff_histogram &h, std::vector<uint8_t> *data_out) {
	memset(&h, 0, sizeof h);
	int kind = (int) t.range(0, 10);
	uint64_t seed = t.bits64();
	const uint64_t MAXV = (1ull << 44) - 1;
	switch (kind) {
	case 0: return "all-zero";
	case 1: { // one non-zero symbol
		int which = (int) t.range(0, 3);
		if (which == 0) h.lit_len_histogram[t.range(0, 255)] = 1 + seed % 1000;
		else if (which == 1) h.lit_len_histogram[256] = 5;
		else if (which == 2) h.lit_len_histogram[257 + t.range(0, 28)] = 7;
		else h.dist_histogram[t.range(0, 29)] = 9;
		return fmt("single-symbol(%d)", which);
	}
	case 2: { // sparse
		int n = (int) t.range(2, 12);
		for (int i = 0; i < n; i++) h.lit_len_histogram[mix64(seed + i) % 286] = 1 + mix64(seed * 3 + i) % 100000;
		for (int i = 0; i < n / 3; i++) h.dist_histogram[mix64(seed * 5 + i) % 30] = 1 + mix64(seed * 7 + i) % 1000;
		return "sparse";
	}
	case 3: { uint64_t v = t.pick<uint64_t>({1, 1000, MAXV, 1ull << 32}); for (int i = 0; i < 286; i++) h.lit_len_histogram[i] = v; for (int i = 0; i < 30; i++) h.dist_histogram[i] = v; return "uniform"; }
	case 4: for (int i = 0; i < 286; i++) h.lit_len_histogram[(i * 37 + seed) % 286] = 1ull << (i % 44); for (int i = 0; i < 30; i++) h.dist_histogram[(i * 7 + seed) % 30] = 1ull << (i % 44); return "powers-of-two";
	case 5: { // Fibonacci-like weights: unrestricted Huffman depth far beyond 15
		uint64_t a = 1, b = 1;
		int n = (int) t.range(20, 60), off = (int) (seed % 200);
		for (int i = 0; i < n; i++) { h.lit_len_histogram[(off + i * 3) % 286] = a; uint64_t c = a + b; a = b; b = c > MAXV ? MAXV : c; }
		a = b = 1;
		for (int i = 0; i < 30; i++) { h.dist_histogram[i] = a; uint64_t c = a + b; a = b; b = c > MAXV ? MAXV : c; }
		return "fibonacci";
	}
	case 6: { uint64_t scale = 1ull << t.range(0, 43); for (int i = 0; i < 286; i++) h.lit_len_histogram[i] = mix64(seed + i) % (scale + 1); for (int i = 0; i < 30; i++) h.dist_histogram[i] = mix64(seed * 3 + i) % (scale + 1); return "random-scaled"; }
	case 7: for (int i = 0; i < 286; i++) h.lit_len_histogram[i] = mix64(seed + i) & MAXV; for (int i = 0; i < 30; i++) h.dist_histogram[i] = mix64(seed * 3 + i) & MAXV; return "random-full-range";
	case 8: { // a few rare symbols next to many huge counts: the sum needs > 48 bits while single counts stay below 2^44
		int nrare = (int) t.range(1, 8);
		uint64_t big = t.coin() ? MAXV : (1ull << t.range(40, 43));
		for (int i = 0; i < 286; i++) h.lit_len_histogram[i] = t.coin() ? big : big - mix64(seed + i) % (big / 2);
		for (int i = 0; i < 30; i++) h.dist_histogram[i] = mix64(seed * 3 + i) & MAXV;
		for (int i = 0; i < nrare; i++) h.lit_len_histogram[mix64(seed * 11 + i) % 256] = 1 + mix64(seed * 13 + i) % (i & 1 ? 1000 : 3);
		return fmt("huge-plus-rare(%d)", nrare);
	}
	default: { // collected from data by one of the collectors
		std::vector<dg::Seg> segs;
		dg::gen(t, segs, 40000);
		std::vector<uint8_t> d;
		dg::expand(segs, d);
		int coll = (int) t.range(0, 3);
		const char *lv = "host";
		if (coll == 3) { lv = cpu::LEVEL_NAMES[t.range(0, cpu::N_LEVELS - 1)]; kern::use_level(lv); }
		guard::Buf ib = guard::alloc_copy(d.data(), d.size(), t.coin() ? guard::END : guard::START, "histogram input");
		guard::set_readonly(ib);
		guard::Fault f = guard::call([&] {
			if (coll == 0) isal_update_histogram_base(ib.p, (int) d.size(), &h);
			else if (coll == 1) isal_update_histogram_01(ib.p, (int) d.size(), &h);
			else if (coll == 2) isal_update_histogram_04(ib.p, (int) d.size(), &h);
			else isal_update_histogram(ib.p, (int) d.size(), &h);
		});
		if (f.faulted) throw Violation("hufftables:update_histogram:memory", fmt("isal_update_histogram variant %d on %zu bytes: %s", coll, d.size(), f.describe().c_str()));
		// hash_table is scratch space: the same collector on the same bytes must count the same when that area holds garbage
		{
			static struct isal_huff_histogram h2;
			memset(&h2, 0, sizeof h2);
			uint64_t gs = mix64(seed ^ 0x5c);
			for (size_t i = 0; i < IGZIP_LVL0_HASH_SIZE; i++) h2.hash_table[i] = (uint16_t) (mix64(gs + i) >> 9);
			guard::Fault f2 = guard::call([&] {
				if (coll == 0) isal_update_histogram_base(ib.p, (int) d.size(), &h2);
				else if (coll == 1) isal_update_histogram_01(ib.p, (int) d.size(), &h2);
				else if (coll == 2) isal_update_histogram_04(ib.p, (int) d.size(), &h2);
				else isal_update_histogram(ib.p, (int) d.size(), &h2);
			});
			if (f2.faulted) throw Violation("hufftables:update_histogram:scratch", fmt("isal_update_histogram variant %d on %zu bytes with garbage in the scratch hash table: %s", coll, d.size(), f2.describe().c_str()));
			if (memcmp(h2.lit_len_histogram, h.lit_len_histogram, sizeof h.lit_len_histogram) || memcmp(h2.dist_histogram, h.dist_histogram, sizeof h.dist_histogram))
				throw Violation("hufftables:update_histogram:scratch", fmt("isal_update_histogram variant %d on %zu bytes: the counts depend on what the scratch hash table held before the call", coll, d.size()));
		}
		// plausibility of a collected histogram: literals + matched bytes account for at most the input
		uint64_t lits = 0, nmatch = 0, ndist = 0;
		for (int i = 0; i < 256; i++) lits += h.lit_len_histogram[i];
		for (int i = 257; i < 286; i++) nmatch += h.lit_len_histogram[i];
		for (int i = 0; i < 30; i++) ndist += h.dist_histogram[i];
		if (lits + 3 * nmatch > d.size()) throw Violation("hufftables:update_histogram:counts", fmt("collector %d counts %llu literals and %llu matches for %zu input bytes", coll, (unsigned long long) lits, (unsigned long long) nmatch, d.size()));
		if (nmatch != ndist) throw Violation("hufftables:update_histogram:counts", fmt("collector %d: %llu length symbols but %llu distance symbols", coll, (unsigned long long) nmatch, (unsigned long long) ndist));
		if (data_out) *data_out = d;
		return fmt("collected(variant %d%s%s)", coll, coll == 3 ? "@" : "", coll == 3 ? lv : "");
	}
	}
}

struct Recon { uint8_t ll[286]; uint8_t d[30]; };

// rebuild the code lengths the tables imply
static void reconstruct(const struct isal_hufftables &ht, Recon &r, int &worst_bits) {
	for (int i = 0; i < 257; i++) r.ll[i] = ht.lit_table_sizes[i];
	int maxlit = 0, maxlen = 0, maxdist = 0;
	for (int i = 0; i < 257; i++) maxlit = std::max<int>(maxlit, ht.lit_table_sizes[i]);
	for (int s = 0; s < 29; s++) {
		unsigned base = refinf::LBASE[s];
		int cnt = (int) (ht.len_table[base - 3] & 0x1F);
		r.ll[257 + s] = (uint8_t) (cnt - refinf::LEXT[s]);
		maxlen = std::max(maxlen, cnt);
	}
	for (int s = 0; s < 30; s++) {
		int cnt;
		if (s >= IGZIP_DECODE_OFFSET) { cnt = ht.dcodes_sizes[s - IGZIP_DECODE_OFFSET]; r.d[s] = (uint8_t) cnt; maxdist = std::max(maxdist, cnt + refinf::DEXT[s]); }
		else {
			unsigned base = refinf::DBASE[s];
			cnt = (int) (ht.dist_table[base - 1] & 0x1F);
			r.d[s] = (uint8_t) (cnt - refinf::DEXT[s]);
			maxdist = std::max(maxdist, cnt);
		}
	}
	worst_bits = maxlit + maxlen + maxdist;
}

static void check_tables(const struct isal_hufftables &ht, const struct isal_huff_histogram &h, bool subset, const std::string &what) {
	Recon r;
	int worst;
	reconstruct(ht, r, worst);
	// literal/length alphabet: every coded length in 1..15, complete prefix code
	auto kraft = [](const uint8_t *lens, int n, int &ncodes, int &maxl) { uint64_t s = 0; ncodes = 0; maxl = 0; for (int i = 0; i < n; i++) if (lens[i]) { s += 1ull << (15 - lens[i]); ncodes++; maxl = std::max<int>(maxl, lens[i]); } return s; };
	int nll, mll, nd, md;
	for (int i = 0; i < 286; i++) PBT_CHECK(r.ll[i] <= 15, "hufftables:create:lengths", "%s: literal/length symbol %d has code length %u", what.c_str(), i, r.ll[i]);
	for (int i = 0; i < 30; i++) PBT_CHECK(r.d[i] <= 15, "hufftables:create:lengths", "%s: distance symbol %d has code length %u", what.c_str(), i, r.d[i]);
	uint64_t kll = kraft(r.ll, 286, nll, mll), kd = kraft(r.d, 30, nd, md);
	PBT_CHECK(r.ll[256] != 0, "hufftables:create:lengths", "%s: no code for end-of-block", what.c_str());
	PBT_CHECK(kll == (1ull << 15) || (nll == 1 && mll == 1), "hufftables:create:kraft", "%s: literal/length code is not a complete prefix code (Kraft sum %llu/32768 over %d symbols)", what.c_str(), (unsigned long long) kll, nll);
	PBT_CHECK(kd == (1ull << 15) || (nd == 1 && md == 1) || nd == 0, "hufftables:create:kraft", "%s: distance code is not a complete prefix code (Kraft sum %llu/32768 over %d symbols)", what.c_str(), (unsigned long long) kd, nd);
	if (!subset) {
		for (int i = 0; i < 286; i++) PBT_CHECK(r.ll[i] >= 1, "hufftables:create:lengths", "%s: literal/length symbol %d has no code although every symbol must be encodable", what.c_str(), i);
		for (int i = 0; i < 30; i++) PBT_CHECK(r.d[i] >= 1, "hufftables:create:lengths", "%s: distance symbol %d has no code", what.c_str(), i);
	} else {
		for (int i = 0; i < 256; i++) if (h.lit_len_histogram[i]) PBT_CHECK(r.ll[i] >= 1, "hufftables:create:lengths", "%s: literal %d has a non-zero count but no code", what.c_str(), i);
	}
	// short enough for the encoder's 64-bit bit buffer (a literal plus a full length/distance pair between flushes)
	PBT_CHECK(worst <= 56, "hufftables:create:bitbuf", "%s: longest literal + longest length(+extra) + longest distance(+extra) = %d bits > 56", what.c_str(), worst);
	// the stored dynamic-block header parses to exactly those codes
	PBT_CHECK(ht.deflate_hdr_count <= ISAL_DEF_MAX_HDR_SIZE && ht.deflate_hdr_extra_bits < 8, "hufftables:create:header", "%s: header size fields out of range (%u bytes + %u bits)", what.c_str(), ht.deflate_hdr_count, ht.deflate_hdr_extra_bits);
	std::vector<uint8_t> bits(ht.deflate_hdr, ht.deflate_hdr + ht.deflate_hdr_count + 1);
	// append the end-of-block code right after the header bits, then padding
	uint64_t bitpos = (uint64_t) ht.deflate_hdr_count * 8 + ht.deflate_hdr_extra_bits;
	bits.resize(ht.deflate_hdr_count + 16, 0);
	bits[ht.deflate_hdr_count] &= (uint8_t) ((1u << ht.deflate_hdr_extra_bits) - 1);
	uint32_t eob = ht.lit_table[256];
	for (int i = 0; i < ht.lit_table_sizes[256]; i++, bitpos++) if (eob & (1u << i)) bits[bitpos >> 3] |= (uint8_t) (1u << (bitpos & 7));
	refinf::Options ro;
	ro.keep_lens = true;
	refinf::Result rr = refinf::inflate(bits.data(), bits.size(), ro);
	PBT_CHECK(!rr.blocks.empty() && rr.blocks[0].type == 2, "hufftables:create:header", "%s: the stored header is not a parseable dynamic block header (%s at bit %llu)", what.c_str(), refinf::status_name(rr.st), (unsigned long long) rr.err_bit);
	PBT_CHECK(rr.blocks[0].hdr_end_bit == (uint64_t) ht.deflate_hdr_count * 8 + ht.deflate_hdr_extra_bits, "hufftables:create:header", "%s: the header is %llu bits long but deflate_hdr_count*8+extra_bits = %u", what.c_str(), (unsigned long long) rr.blocks[0].hdr_end_bit, ht.deflate_hdr_count * 8 + ht.deflate_hdr_extra_bits);
	PBT_CHECK(rr.blocks[0].end_bit == bitpos && rr.blocks[0].out_end == 0, "hufftables:create:header", "%s: the end-of-block code of the tables is not the one the header defines", what.c_str());
	for (size_t i = 0; i < 286; i++) { uint8_t hl = i < rr.ll_lens.size() ? rr.ll_lens[i] : 0; PBT_CHECK(hl == r.ll[i], "hufftables:create:header", "%s: header gives literal/length symbol %zu length %u, encoder tables use %u", what.c_str(), i, hl, r.ll[i]); }
	for (size_t i = 0; i < 30; i++) { uint8_t hl = i < rr.d_lens.size() ? rr.d_lens[i] : 0; PBT_CHECK(hl == r.d[i], "hufftables:create:header", "%s: header gives distance symbol %zu length %u, encoder tables use %u", what.c_str(), i, hl, r.d[i]); }
}

static void body_create(Tape &t, Ctx &c) {
	bool subset = t.coin();
	std::string kind = gen_hist(t, g_hist, nullptr);
	for (int i = 0; i < 286; i++) c.fpmix(g_hist.lit_len_histogram[i] + i);
	for (int i = 0; i < 30; i++) c.fpmix(g_hist.dist_histogram[i] * 3 + i);
	c.fpmix(subset);
	guard::Buf hb = guard::alloc(sizeof(struct isal_hufftables), guard::END, "isal_hufftables", 8, 0);
	memset(hb.p, t.coin() ? 0x00 : 0xA5, sizeof(struct isal_hufftables));
	guard::Buf gb = guard::alloc_copy(&g_hist, sizeof g_hist, guard::END, "histogram", 8, 0);
	int rc = 0;
	guard::Fault f = guard::call([&] { rc = subset ? isal_create_hufftables_subset((struct isal_hufftables *) hb.p, (struct isal_huff_histogram *) gb.p) : isal_create_hufftables((struct isal_hufftables *) hb.p, (struct isal_huff_histogram *) gb.p); });
	std::string what = fmt("%s(%s histogram)", subset ? "isal_create_hufftables_subset" : "isal_create_hufftables", kind.c_str());
	PBT_CHECK(!f.faulted, "hufftables:create:memory", "%s: %s", what.c_str(), f.describe().c_str());
	PBT_CHECK(guard::canaries_ok(hb) && guard::canaries_ok(gb), "hufftables:create:memory", "%s wrote outside its structures", what.c_str());
	PBT_CHECK(rc == 0, "hufftables:create:rc", "%s returned %d", what.c_str(), rc);
	check_tables(*(struct isal_hufftables *) hb.p, g_hist, subset, what);
	int support = 0;
	for (int i = 0; i < 286; i++) support += g_hist.lit_len_histogram[i] != 0;
	c.nontrivial = kind == "fibonacci" || kind == "powers-of-two" || support < 3;
	c.label(kind.substr(0, kind.find('(')));
	c.label(subset ? "subset" : "full");
	if (c.want_sample) { Recon r; int w; reconstruct(*(struct isal_hufftables *) hb.p, r, w);
		c.sample = fmt("{\"histogram\":%s,\"subset\":%d,\"support\":%d,\"hdr_bytes\":%u,\"worst_case_bits\":%d,\"len_of_eob\":%u}", jstr(kind).c_str(), (int) subset, support, ((struct isal_hufftables *) hb.p)->deflate_hdr_count, w, r.ll[256]); }
}

static struct isal_hufftables g_ht;

// compress with the table: any data (full builder) / data drawn from the histogram's support (subset builder)
static void body_roundtrip(Tape &t, Ctx &c) {
	bool subset = t.coin();
	std::vector<uint8_t> collected;
	std::string kind = gen_hist(t, g_hist, &collected);
	int rc = subset ? isal_create_hufftables_subset(&g_ht, &g_hist) : isal_create_hufftables(&g_ht, &g_hist);
	PBT_CHECK(rc == 0, "hufftables:create:rc", "table creation returned %d for a %s histogram", rc, kind.c_str());
	std::vector<uint8_t> data;
	std::vector<dg::Seg> segs;
	if (subset) {
		// only byte values with a non-zero count may appear
		std::vector<uint8_t> sup;
		for (int i = 0; i < 256; i++) if (g_hist.lit_len_histogram[i]) sup.push_back((uint8_t) i);
		if (!collected.empty() && t.coin()) data = collected;
		else if (!sup.empty()) {
			size_t n = (size_t) (t.coin() ? t.range(0, 300) : t.spread(0, 40000));
			uint64_t s = t.bits64();
			int mode = (int) t.range(0, 2);
			for (size_t i = 0; i < n; i++) data.push_back(mode == 0 ? sup[mix64(s + i) % sup.size()] : mode == 1 ? sup[(i / 7 + s) % sup.size()] : sup[mix64(s + i / 13) % sup.size()]);
		}
	} else {
		dg::gen(t, segs, 60000);
		dg::expand(segs, data);
	}
	igz::DefOpts o;
	o.level = 0;
	o.gzip_flag = (int) t.range(0, 4);
	o.hist_bits = (int) t.pick<uint32_t>({0, 0, 15, 10});
	o.stateless = t.range(0, 2) == 0;
	o.table = IGZIP_HUFFTABLE_CUSTOM;
	o.custom = &g_ht;
	const char *lv = cpu::LEVEL_NAMES[t.pick<uint32_t>({11, 0, 1, 6, 8})];
	kern::use_level(lv);
	igzc::StreamPlan p = igzc::decode_plan(t, data.size());
	c.fpmix(subset); for (int i = 0; i < 286; i++) c.fpmix(g_hist.lit_len_histogram[i] + i); c.fpmix(mix64(data.size())); for (size_t i = 0; i < data.size() && i < 64; i++) c.fpmix(data[i]);
	c.fpmix(o.gzip_flag * 10 + o.stateless); c.fpmix(mix64((uint64_t) (uintptr_t) lv)); c.fpmix(p.in.mode * 7 + p.in.param); c.fpmix(p.out.mode * 7 + p.out.param); c.fpmix(p.flush_mode);
	igz::Deflater d(o);
	std::string what = fmt("level 0 with a custom table (%s%s histogram), gzip_flag %d, %s, cpu %s, %zu bytes", subset ? "subset, " : "", kind.c_str(), o.gzip_flag, o.stateless ? "stateless" : "streaming", lv, data.size());
	if (o.stateless) {
		int flush = t.coin() ? FULL_FLUSH : NO_FLUSH;
		igz::CallInfo ci = d.call(data.data(), data.size(), data.size() * 2 + 4096, flush, true);
		PBT_CHECK(!ci.faulted && ci.problem.empty(), "hufftables:use:fault", "%s: %s", what.c_str(), ci.problem.c_str());
		PBT_CHECK(ci.rc == COMP_OK, "hufftables:use:rc", "%s: rc %d", what.c_str(), ci.rc);
	} else {
		std::string ks, err = igzc::run_stream(d, data, p, ks);
		if (ks == "inconclusive") throw Skip("inconclusive");
		PBT_CHECK(err.empty(), "hufftables:use:" + ks, "%s (in %s out %s flush-mode %d): %s", what.c_str(), p.in.text().c_str(), p.out.text().c_str(), p.flush_mode, err.c_str());
	}
	refinf::Result ri;
	std::string v = igzc::verify_stream(d.out, data, o.gzip_flag, o.hist_bits, &ri);
	PBT_CHECK(v.empty(), "hufftables:use:decode", "%s: %s", what.c_str(), v.c_str());
	c.nontrivial = ri.nmatches >= 1;
	c.label(kind.substr(0, kind.find('(')));
	c.label(subset ? "subset" : "full");
	bool custom_used = false;
	for (auto &b : ri.blocks) if (b.type == 2) custom_used = true;
	if (custom_used) c.label("dynamic-block-emitted");
	if (c.want_sample) c.sample = fmt("{\"histogram\":%s,\"subset\":%d,\"data_bytes\":%zu,\"gzip_flag\":%d,\"stateless\":%d,\"cpu\":\"%s\",\"compressed\":%zu,\"matches\":%zu}", jstr(kind).c_str(), (int) subset, data.size(), o.gzip_flag, (int) o.stateless, lv, d.out.size(), ri.nmatches);
}

// installing a table is refused while a block is open
static void body_set_refused(Tape &t, Ctx &c) {
	gen_hist(t, g_hist, nullptr);
	PBT_CHECK(isal_create_hufftables(&g_ht, &g_hist) == 0, "hufftables:create:rc", "table creation failed");
	std::vector<dg::Seg> segs;
	dg::gen(t, segs, 30000);
	std::vector<uint8_t> data;
	dg::expand(segs, data);
	if (data.size() < 64) throw Skip("input too small to have an open block");
	igz::DefOpts o;
	o.level = 0;
	o.gzip_flag = (int) t.range(0, 4);
	igz::Deflater d(o);
	size_t first = (size_t) t.range(1, data.size() - 1);
	size_t cap = (size_t) t.pick<uint32_t>({1, 8, 20, 64, 100000});
	c.fpmix(dg::fingerprint(segs)); c.fpmix(first); c.fpmix(cap); c.fpmix(o.gzip_flag);
	igz::CallInfo ci = d.call(data.data(), first, cap, NO_FLUSH, false);
	PBT_CHECK(!ci.faulted && ci.problem.empty() && ci.rc == COMP_OK, "hufftables:set:call", "first call: rc %d %s", ci.rc, ci.problem.c_str());
	int st = (int) d.s->internal_state.state;
	struct isal_hufftables *before = d.s->hufftables;
	int type = (int) t.pick<uint32_t>({IGZIP_HUFFTABLE_CUSTOM, IGZIP_HUFFTABLE_STATIC, IGZIP_HUFFTABLE_DEFAULT});
	int rc = isal_deflate_set_hufftables(d.s, &g_ht, type);
	if (st != ZSTATE_NEW_HDR) {
		PBT_CHECK(rc == ISAL_INVALID_OPERATION, "hufftables:set:refused", "isal_deflate_set_hufftables in state %d returned %d instead of ISAL_INVALID_OPERATION", st, rc);
		PBT_CHECK(d.s->hufftables == before, "hufftables:set:refused", "a refused isal_deflate_set_hufftables changed the table in use");
		c.label("refused-mid-block");
	} else {
		PBT_CHECK(rc == COMP_OK, "hufftables:set:refused", "isal_deflate_set_hufftables in ZSTATE_NEW_HDR returned %d", rc);
		c.label("accepted-in-NEW_HDR");
	}
	// either way the stream must still decode
	int guardc = 0;
	size_t pos = first;
	while (!d.finished()) {
		size_t add = data.size() - pos;
		ci = d.call(data.data() + pos, add, data.size() * 2 + 4096, NO_FLUSH, true);
		pos += add;
		PBT_CHECK(!ci.faulted && ci.problem.empty() && ci.rc == COMP_OK, "hufftables:set:call", "finishing call: rc %d %s", ci.rc, ci.problem.c_str());
		PBT_CHECK(++guardc < 100, "hufftables:set:call", "stream does not finish");
	}
	std::string v = igzc::verify_stream(d.out, data, o.gzip_flag, 0);
	PBT_CHECK(v.empty(), "hufftables:set:decode", "after isal_deflate_set_hufftables (rc %d in state %d): %s", rc, st, v.c_str());
	c.nontrivial = st != ZSTATE_NEW_HDR;
	if (c.want_sample) c.sample = fmt("{\"first_chunk\":%zu,\"out_cap\":%zu,\"state_at_set\":%d,\"rc\":%d}", first, cap, st, rc);
}

int main(int argc, char **argv) {
	refcrc::self_test();
	std::vector<Sub> subs = {
		{"create", body_create, 48, 8, nullptr, "histograms in [0,2^44)^(286+30): all-zero, single symbol, sparse, uniform, powers of two, Fibonacci-like (depth > 15), random scaled/full range, collected from data by each collector variant; both builders; oracle: lengths <= 15, Kraft sum exactly 1 per alphabet, every symbol coded (full builder), worst-case bits <= 56, the stored dynamic header re-parsed by the RFC 1951 reference decoder yields exactly the table lengths, its size fields are exact; non-trivial: depth-limited or support < 3"},
		{"roundtrip", body_roundtrip, 64, 6, nullptr, "compress at level 0 with the custom table: any data (full builder) or data drawn from the histogram's support (subset builder), one-shot (NO/FULL flush) and streaming schedules with all flush modes; zlib + reference decoder return the input; non-trivial: stream has a match"},
		{"set_refused", body_set_refused, 48, 2, nullptr, "isal_deflate_set_hufftables after the first call: refused with ISAL_INVALID_OPERATION unless the state is ZSTATE_NEW_HDR, table unchanged, stream still decodes; non-trivial: refused mid-block"},
	};
	return pbt_main(argc, argv, "C18", subs);
}
