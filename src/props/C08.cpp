// C08 - RAID parity generation is exact and parity checks are sound and complete
#include "raid_variants.h"
using namespace pbt;
using namespace raidv;
struct Sel { Var v; std::string shown, key; };
static Sel select(Op op, Tape &t) {
	const Var *tab = op == XOR_GEN ? XG : op == PQ_GEN ? PG : op == XOR_CHECK ? XC : PC;
	int n = op == XOR_GEN ? 4 : op == PQ_GEN ? 5 : 2;
	uint32_t vi = (uint32_t) t.range(0, n + cpu::N_LEVELS - 1);
	Sel s;
	if (vi < (uint32_t) n) {
		s.v = tab[vi];
		cpu::Config cfg;
		cpu::level_config(s.v.level, cfg);
		if (!cpu::host_can_run(cfg)) throw Skip(std::string("host cannot execute ") + s.v.name);
		s.shown = s.v.name;
	} else {
		s.v = DISP[op];
		const char *lv = cpu::LEVEL_NAMES[vi - n];
		kern::use_level(lv);
		s.shown = std::string(s.v.name) + "@" + lv + "->" + "";
		s.shown = std::string(s.v.name) + "@" + lv;
	}
	s.key = std::string("raid:") + s.v.name;
	return s;
}

static int decode_vects(Tape &t, int minv) {
	static const int VS[] = {0, 1, 2, 4, 5, 12, 13, 28, 60, 253};
	int v = t.coin() ? minv + VS[t.range(0, 9)] : (int) t.range(minv, 40);
	return v > 257 ? 257 : v;
}
static size_t decode_rlen(Tape &t, size_t mult, size_t cap) {
	size_t len;
	switch (t.range(0, 2)) {
	case 0: len = (size_t) t.range(0, 48) * mult; break;            // small multiples
	case 1: len = (size_t) t.range(0, 1100); break;                   // every residue
	default: len = (size_t) t.spread(0, cap); break;
	}
	if (mult > 1) len -= len % mult;
	return len;
}

struct Arr {
	std::vector<guard::Buf> blk;
	guard::Buf ptrs;
};
static void alloc_blocks(Arr &a, int vects, size_t len, Tape &t, size_t align, int n_readonly, uint64_t dseed) {
	kern::Placement pl = kern::decode_placement(t, align);
	for (int i = 0; i < vects; i++) {
		kern::Placement p = pl;
		if (p.mode >= 2) p.off = (p.off + align * ((i * 5) % (64 / align))) & 63; // e.g. 32-but-not-64 byte alignment on purpose
		guard::Buf b = kern::alloc(len, p, i < n_readonly ? "source block" : "parity block");
		kern::fill(b.p, len, dseed + i * 104729, i % 7 == 3 ? 2 : 0);
		a.blk.push_back(b);
	}
	a.ptrs = guard::alloc(sizeof(void *) * vects, guard::END, "pointer array", 8, 0);
	for (int i = 0; i < vects; i++) ((void **) a.ptrs.p)[i] = a.blk[i].p;
	guard::set_readonly(a.ptrs);
}
static void ref_pq(const Arr &a, int nsrc, size_t len, std::vector<uint8_t> &P, std::vector<uint8_t> &Q) {
	P.assign(len, 0); Q.assign(len, 0);
	for (int i = 0; i < nsrc; i++) {
		uint8_t g = refgf::pow2((unsigned) i % 255);
		const uint8_t *row = refgf::T().m[g];
		for (size_t x = 0; x < len; x++) { P[x] ^= a.blk[i].p[x]; Q[x] ^= row[a.blk[i].p[x]]; }
	}
}

static void body_gen(Tape &t, Ctx &c) {
	bool pq = t.coin();
	Sel s = select(pq ? PQ_GEN : XOR_GEN, t);
	int npar = pq ? 2 : 1;
	int vects = decode_vects(t, pq ? 4 : 3);
	size_t len = decode_rlen(t, s.v.lenmult, vects > 64 ? 4096 : 40000);
	uint64_t dseed = t.bits64();
	Arr a;
	alloc_blocks(a, vects, len, t, s.v.align, vects - npar, dseed);
	for (int i = 0; i < vects - npar; i++) guard::set_readonly(a.blk[i]);
	c.fpmix(pq); c.fpmix(mix64((uint64_t) (uintptr_t) s.v.fn) ^ mix64(s.shown.size())); for (char ch : s.shown) c.fpmix(ch);
	c.fpmix(vects); c.fpmix(len); c.fpmix(dseed);
	int rc = -99;
	guard::Fault f = guard::call([&] { rc = s.v.fn(vects, (int) len, (void **) a.ptrs.p); });
	PBT_CHECK(!f.faulted, s.key, "%s(vects=%d,len=%zu): %s", s.shown.c_str(), vects, len, f.describe().c_str());
	PBT_CHECK(rc == 0, s.key, "%s(vects=%d,len=%zu) returned %d for valid arguments", s.shown.c_str(), vects, len, rc);
	std::vector<uint8_t> P, Q;
	ref_pq(a, vects - npar, len, P, Q);
	const guard::Buf &pb = a.blk[vects - npar];
	PBT_CHECK(guard::canaries_ok(pb), s.key, "%s wrote outside the P block", s.shown.c_str());
	for (size_t x = 0; x < len; x++)
		PBT_CHECK(pb.p[x] == P[x], s.key, "%s(vects=%d,len=%zu): P[%zu]=0x%02x, XOR of sources is 0x%02x", s.shown.c_str(), vects, len, x, pb.p[x], P[x]);
	if (pq) {
		const guard::Buf &qb = a.blk[vects - 1];
		PBT_CHECK(guard::canaries_ok(qb), s.key, "%s wrote outside the Q block", s.shown.c_str());
		for (size_t x = 0; x < len; x++)
			PBT_CHECK(qb.p[x] == Q[x], s.key, "%s(vects=%d,len=%zu): Q[%zu]=0x%02x, sum 2^i*D_i is 0x%02x", s.shown.c_str(), vects, len, x, qb.p[x], Q[x]);
		// two lost data blocks are rebuilt from the library's P and Q by a reference 2x2 solve
		int nsrc = vects - 2;
		if (nsrc >= 2 && nsrc <= 255 && len) {
			int x = (int) t.range(0, nsrc - 2), y = (int) t.range(x + 1, nsrc - 1);
			uint8_t gx = refgf::pow2(x), gy = refgf::pow2(y), den = refgf::inv(gx ^ gy);
			size_t lim = len < 512 ? len : 512;
			for (size_t i = 0; i < lim; i++) {
				uint8_t pxy = pb.p[i], qxy = qb.p[i];
				for (int j = 0; j < nsrc; j++) if (j != x && j != y) { pxy ^= a.blk[j].p[i]; qxy ^= refgf::mul(refgf::pow2(j), a.blk[j].p[i]); }
				uint8_t dy = refgf::mul(den, qxy ^ refgf::mul(gx, pxy)), dx = pxy ^ dy;
				PBT_CHECK(dx == a.blk[x].p[i] && dy == a.blk[y].p[i], s.key, "%s: blocks %d,%d cannot be rebuilt from P,Q at byte %zu", s.shown.c_str(), x, y, i);
			}
			c.label("rebuild-2-erasures");
		}
	}
	c.nontrivial = len >= 32 && vects >= (pq ? 5 : 4);
	c.label(s.shown.find('@') == std::string::npos ? s.shown : s.shown + "->" + cpu::resolved_name(s.v.name));
	if (c.want_sample) c.sample = fmt("{\"fn\":%s,\"vects\":%d,\"len\":%zu,\"rc\":%d}", jstr(s.shown).c_str(), vects, len, rc);
}

static void body_check(Tape &t, Ctx &c) {
	bool pq = t.coin();
	Sel s = select(pq ? PQ_CHECK : XOR_CHECK, t);
	int vects = decode_vects(t, pq ? 4 : 2);
	if (vects > 40) vects = 40;
	size_t len = decode_rlen(t, s.v.lenmult, 6000);
	uint64_t dseed = t.bits64();
	Arr a;
	alloc_blocks(a, vects, len, t, s.v.align, 0, dseed);
	int npar = pq ? 2 : 1;
	std::vector<uint8_t> P, Q;
	ref_pq(a, vects - npar, len, P, Q);
	if (len) {
		memcpy(a.blk[vects - npar].p, P.data(), len);
		if (pq) memcpy(a.blk[vects - 1].p, Q.data(), len);
	}
	for (auto &b : a.blk) guard::set_readonly(b); // a check must not write
	for (char ch : s.shown) c.fpmix(ch);
	c.fpmix(vects); c.fpmix(len); c.fpmix(dseed);
	int rc = -99;
	guard::Fault f = guard::call([&] { rc = s.v.fn(vects, (int) len, (void **) a.ptrs.p); });
	PBT_CHECK(!f.faulted, s.key, "%s(vects=%d,len=%zu) consistent: %s", s.shown.c_str(), vects, len, f.describe().c_str());
	PBT_CHECK(rc == 0, s.key, "%s(vects=%d,len=%zu) returned %d for parity-consistent arrays", s.shown.c_str(), vects, len, rc);
	// single-byte corruptions: every position of every block when small, sampled otherwise
	size_t total = (size_t) vects * len, probes = 0;
	auto probe = [&](int b, size_t pos, uint8_t xv) {
		guard::set_readwrite(a.blk[b]);
		a.blk[b].p[pos] ^= xv;
		guard::set_readonly(a.blk[b]);
		guard::Fault f2 = guard::call([&] { rc = s.v.fn(vects, (int) len, (void **) a.ptrs.p); });
		guard::set_readwrite(a.blk[b]);
		a.blk[b].p[pos] ^= xv;
		guard::set_readonly(a.blk[b]);
		PBT_CHECK(!f2.faulted, s.key, "%s corrupted: %s", s.shown.c_str(), f2.describe().c_str());
		PBT_CHECK(rc != 0, s.key, "%s(vects=%d,len=%zu) returned 0 although block %d byte %zu was changed by ^0x%02x", s.shown.c_str(), vects, len, b, pos, xv);
		probes++;
	};
	if (total && total <= 1600) {
		for (int b = 0; b < vects; b++)
			for (size_t pos = 0; pos < len; pos++) probe(b, pos, (uint8_t) (1u << ((pos + b) & 7)));
		c.label("exhaustive-single-byte-corruption");
	} else if (total) {
		for (int i = 0; i < 24; i++) {
			int b = (int) (mix64(dseed + i) % vects);
			size_t pos = i == 0 ? 0 : i == 1 ? len - 1 : (size_t) (mix64(dseed * 3 + i) % len);
			uint8_t xv = (uint8_t) (1 + mix64(dseed * 5 + i) % 255);
			probe(b, pos, xv);
		}
	}
	c.nontrivial = len >= 32 && vects >= (pq ? 5 : 3);
	c.label(s.shown.find('@') == std::string::npos ? s.shown : s.shown + "->" + cpu::resolved_name(s.v.name));
	if (c.want_sample) c.sample = fmt("{\"fn\":%s,\"vects\":%d,\"len\":%zu,\"corruptions_probed\":%zu}", jstr(s.shown).c_str(), vects, len, probes);
}

// argument combinations below the documented minimum are refused without touching memory
static void body_minargs(Tape &t, Ctx &c) {
	Op op = (Op) t.range(0, 3);
	Sel s = select(op, t);
	int minv = op == XOR_GEN ? 3 : op == XOR_CHECK ? 2 : 4;
	int vects = (int) t.range(0, minv - 1);
	size_t len = (size_t) t.range(1, 8) * 128;
	for (char ch : s.shown) c.fpmix(ch);
	c.fpmix(vects); c.fpmix(len);
	guard::Buf ptrs = guard::alloc(sizeof(void *) * vects, guard::END, "pointer array", 8, 0);
	for (int i = 0; i < vects; i++) ((void **) ptrs.p)[i] = (void *) (uintptr_t) (0x10000000000ull * 3 + 4096 * i); // unmapped: any dereference faults
	guard::set_readonly(ptrs);
	int rc = 0;
	guard::Fault f = guard::call([&] { rc = s.v.fn(vects, (int) len, (void **) ptrs.p); });
	PBT_CHECK(!f.faulted, s.key, "%s(vects=%d,len=%zu) below the documented minimum touched memory: %s", s.shown.c_str(), vects, len, f.describe().c_str());
	PBT_CHECK(rc != 0, s.key, "%s(vects=%d) below the documented minimum returned 0", s.shown.c_str(), vects);
	c.nontrivial = vects >= 1;
	c.label(s.shown);
	if (c.want_sample) c.sample = fmt("{\"fn\":%s,\"vects\":%d,\"len\":%zu,\"rc\":%d}", jstr(s.shown).c_str(), vects, len, rc);
}

int main(int argc, char **argv) {
	const char *rule = "gen: P == XOR of sources, Q == sum 2^i*D_i (carry-less reference), rc 0, sources read-only, two erased blocks rebuilt by a reference solve; "
	                   "check: 0 on consistent arrays (built by the reference), non-zero for every single-byte change (all positions of all blocks when vects*len <= 1600); "
	                   "minargs: below-minimum vects refused without dereferencing (poisoned pointers). Non-trivial: len >= 32 and vects > minimum";
	std::vector<Sub> subs = {
		{"gen", body_gen, 18, 10, nullptr, rule},
		{"check", body_check, 16, 8, nullptr, rule},
		{"minargs", body_minargs, 6, 1, nullptr, rule},
	};
	return pbt_main(argc, argv, "C08", subs);
}
