// C04 - CRC and Adler-32 results equal their mathematical definitions and compose
#include "crc_variants.h"
using namespace pbt;
using namespace refcrc;
using namespace crcv;

static uint64_t ref_call(const Var &v, uint64_t seed, const uint8_t *buf, size_t len) {
	if (v.kind == KADLER) return adler((uint32_t) seed, buf, len);
	return fast(v.model).run(seed, buf, len);
}

struct Sel { Var v; std::string shown; std::string key; };
static Sel select(uint32_t vi) {
	Sel s;
	if (vi < (uint32_t) NDIRECT) {
		s.v = DIRECT[vi];
		cpu::Config cfg;
		cpu::level_config(s.v.level, cfg);
		if (!cpu::host_can_run(cfg)) throw Skip(std::string("host cannot execute ") + s.v.name);
		s.shown = s.v.name;
	} else {
		uint32_t k = vi - NDIRECT;
		s.v = ENTRY[k % NENTRY];
		const char *lv = cpu::LEVEL_NAMES[(k / NENTRY) % cpu::N_LEVELS];
		kern::use_level(lv);
		s.shown = std::string(s.v.name) + "@" + lv;
	}
	s.key = std::string("crc:") + s.v.name;
	return s;
}
static const uint32_t NSEL = NDIRECT + NENTRY * 12;

static uint64_t decode_seed(Tape &t, const Var &v) {
	uint64_t M = width_mask(v);
	switch (t.range(0, 3)) {
	case 0: return 0;
	case 1: return M;
	case 2: return v.kind == KADLER ? 1 : (t.bits64() & M);
	default: {
		uint64_t s = t.bits64() & M;
		if (v.kind == KADLER) s = ((s >> 16) % 65521) << 16 | ((s & 0xFFFF) % 65521); // canonical Adler value
		return s;
	}
	}
}

// one evaluation: value vs reference, composition over split points, copy semantics, memory safety
static void run_case(const Sel &s, uint64_t seed, size_t len, const kern::Placement &pl, uint64_t dseed, int kind, const std::vector<size_t> &cuts, Ctx &c) {
	const Var &v = s.v;
	if (v.kind == KISC && len > 0x7FFFFFFF) throw Skip("crc32_iscsi takes int len");
	bool canonical = v.kind != KADLER || ((seed & 0xFFFF) < 65521 && (seed >> 16) < 65521);
	guard::Buf src = kern::alloc(len, pl, "src");
	kern::fill(src.p, len, dseed, kind);
	guard::set_readonly(src);
	guard::Buf dst;
	if (v.kind == K16C) { dst = guard::alloc(len, guard::END, "dst"); }
	uint64_t got = 0;
	guard::Fault f = guard::call([&] { got = lib_call(v, seed, src.p, len, dst.p); });
	PBT_CHECK(!f.faulted, s.key, "%s(seed=%llx,len=%zu,%s): %s", s.shown.c_str(), (unsigned long long) seed, len, pl.desc().c_str(), f.describe().c_str());
	uint64_t want = ref_call(v, seed, src.p, len);
	if (v.kind == KADLER) {
		uint32_t z = (uint32_t) adler32((uLong) (canonical ? seed : want), src.p, 0); (void) z;
		if (canonical && len < (1u << 30)) {
			uint32_t zl = (uint32_t) adler32((uLong) seed, src.p, (uInt) len);
			if (zl != want) throw OracleBug("RFC 1950 reference and zlib adler32 disagree");
		}
	}
	c.nontrivial = len >= 16;
	c.label(s.shown.find('@') == std::string::npos ? s.shown : s.shown + "->" + cpu::resolved_name(v.entry));
	if (c.want_sample) c.sample = fmt("{\"fn\":%s,\"seed\":\"%llx\",\"len\":%zu,\"placement\":%s,\"data_kind\":%d,\"cuts\":%zu,\"value\":\"%llx\"}", jstr(s.shown).c_str(), (unsigned long long) seed, len, jstr(pl.desc()).c_str(), kind, cuts.size(), (unsigned long long) got);
	if (!canonical) {
		if (got != want) c.label("noncanonical_adler_seed_mismatch(out-of-domain,not-judged)");
		return;
	}
	PBT_CHECK(got == want, s.key, "%s(seed=%llx,len=%zu,%s,data kind %d seed %llx) = %llx, definition gives %llx", s.shown.c_str(), (unsigned long long) seed, len, pl.desc().c_str(), kind, (unsigned long long) dseed, (unsigned long long) got, (unsigned long long) want);
	if (v.kind == K16C) {
		PBT_CHECK(memcmp(dst.p, src.p, len) == 0, s.key, "%s: destination differs from source (len=%zu)", s.shown.c_str(), len);
		PBT_CHECK(guard::canaries_ok(dst), s.key, "%s wrote outside dst (len=%zu)", s.shown.c_str(), len);
	}
	// composition: feed in pieces, passing each result as the next seed
	if (!cuts.empty()) {
		uint64_t run = seed;
		size_t pos = 0;
		std::vector<size_t> cs = cuts;
		cs.push_back(len);
		for (size_t cut : cs) {
			if (cut < pos) continue;
			size_t n = cut - pos;
			guard::Fault f2 = guard::call([&] { run = lib_call(v, run, src.p + pos, n, dst.p ? dst.p + pos : nullptr); });
			PBT_CHECK(!f2.faulted, s.key, "%s piece [%zu,%zu): %s", s.shown.c_str(), pos, cut, f2.describe().c_str());
			pos = cut;
		}
		PBT_CHECK(run == got, s.key, "%s: feeding len=%zu in %zu pieces gives %llx, one call gives %llx (seed %llx)", s.shown.c_str(), len, cs.size(), (unsigned long long) run, (unsigned long long) got, (unsigned long long) seed);
	}
}

static void body(Tape &t, Ctx &c) {
	uint32_t vi = (uint32_t) t.range(0, NSEL - 1);
	Sel s = select(vi);
	uint64_t seed = decode_seed(t, s.v);
	size_t len = kern::decode_len(t, 1 << 20);
	kern::Placement pl = kern::decode_placement(t);
	uint64_t dseed = t.bits64();
	int kind = (int) t.range(0, 4);
	if (kind == 4) kind = 2; // bias towards all-0xFF (Adler worst case)
	std::vector<size_t> cuts;
	size_t nc = (size_t) t.range(0, 4);
	for (size_t i = 0; i < nc && len; i++) cuts.push_back((size_t) t.spread(0, len));
	std::sort(cuts.begin(), cuts.end());
	c.fpmix(vi); c.fpmix(seed); c.fpmix(len); c.fpmix(pl.mode * 4096 + pl.off); c.fpmix(dseed); c.fpmix(kind);
	for (size_t x : cuts) c.fpmix(x);
	run_case(s, seed, len, pl, dseed, kind, cuts, c);
}

// Adler stress: lengths around multiples of 5552 with all-0xFF data and maximal canonical seed
static void body_adler(Tape &t, Ctx &c) {
	static const uint32_t AV[] = {(uint32_t) NDIRECT - 3, (uint32_t) NDIRECT - 2, (uint32_t) NDIRECT - 1};
	uint32_t which = (uint32_t) t.range(0, 3);
	uint32_t vi = which < 3 ? AV[which] : (uint32_t) (NDIRECT + (NENTRY - 1) + NENTRY * t.range(0, 11));
	Sel s = select(vi);
	size_t mult = (size_t) t.range(0, 40);
	int delta = (int) t.range(0, 128) - 64;
	size_t base = mult * 5552;
	size_t len = (size_t) ((long) base + delta < 0 ? 0 : (long) base + delta);
	uint64_t seed = t.pick<uint64_t>({0xFFF0FFF0ull, 1, 0, 0xFFF00001ull, 0x0001FFF0ull});
	kern::Placement pl = kern::decode_placement(t);
	c.fpmix(vi); c.fpmix(len); c.fpmix(seed); c.fpmix(pl.mode * 4096 + pl.off);
	run_case(s, seed, len, pl, 0, 2, {}, c);
}

// systematic: tape = {variant, len}; inside: 3 seeds end-flush, start-flush, 7 misalignments, every split point for len <= 300
static void body_sweep(Tape &t, Ctx &c) {
	uint32_t vi = (uint32_t) t.range(0, NSEL - 1);
	size_t len = (size_t) t.range(0, 8192);
	Sel s = select(vi);
	const Var &v = s.v;
	uint64_t M = width_mask(v);
	uint64_t seeds[3] = {0, v.kind == KADLER ? 0xFFF0FFF0ull : M, v.kind == KADLER ? 1 : (mix64(len * 77 + vi) & M)};
	c.fpmix(vi); c.fpmix(len);
	kern::Placement e{guard::END, 1, 0, 0}, st{guard::START, 1, 0, 1};
	for (int i = 0; i < 3; i++) run_case(s, seeds[i], len, e, len + i, i == 1 ? 2 : 0, {}, c);
	run_case(s, seeds[2], len, st, len, 0, {}, c);
	static const size_t AL[] = {1, 7, 8, 15, 16, 31, 63};
	for (size_t a : AL) {
		kern::Placement p{guard::END, 64, a, 2};
		run_case(s, seeds[2], len, p, len + a, 0, {}, c);
	}
	if (len <= 300) {
		// every split point (composition law), done on one buffer
		guard::Buf src = guard::alloc(len, guard::END, "src");
		kern::fill(src.p, len, len * 31 + vi, 0);
		guard::Buf dst = guard::alloc(len, guard::END, "dst");
		uint64_t whole = lib_call(v, seeds[2], src.p, len, dst.p);
		for (size_t cut = 0; cut <= len; cut++) {
			uint64_t a = 0, b = 0;
			guard::Fault f = guard::call([&] { a = lib_call(v, seeds[2], src.p, cut, dst.p); b = lib_call(v, a, src.p + cut, len - cut, dst.p + cut); });
			PBT_CHECK(!f.faulted, s.key, "%s split %zu/%zu: %s", s.shown.c_str(), cut, len, f.describe().c_str());
			PBT_CHECK(b == whole, s.key, "%s: f(f(s,A),B) != f(s,A||B) for len=%zu cut=%zu (%llx vs %llx)", s.shown.c_str(), len, cut, (unsigned long long) b, (unsigned long long) whole);
		}
	}
	c.label("sweep-case");
}
static void sweep(SweepSink &sk) {
	uint32_t maxlen = sk.thorough() ? 1100 : 420;
	for (uint32_t len = 0; len <= maxlen; len++) {
		for (uint32_t vi = 0; vi < (uint32_t) NDIRECT; vi++)
			if (!sk.emit({vi, len})) return;
		// dispatchers: rotate the cpu level with len
		for (uint32_t e = 0; e < (uint32_t) NENTRY; e++)
			if (!sk.emit({(uint32_t) (NDIRECT + e + NENTRY * (len % 12)), len})) return;
	}
}

// one large Adler buffer beyond MAX_ADLER_BUF (thorough only)
static void body_adler_huge(Tape &t, Ctx &c) {
	if (!opt.thorough) throw Skip("huge Adler buffer only in the thorough tier");
	uint32_t which = (uint32_t) t.range(0, 3);
	Sel s = select(which < 3 ? (uint32_t) (NDIRECT - 3 + which) : (uint32_t) (NDIRECT + NENTRY - 1 + NENTRY * 11));
	size_t len = (1u << 28) + (size_t) t.range(1, 70000);
	c.fpmix(which); c.fpmix(len);
	kern::Placement e{guard::END, 1, 0, 0};
	run_case(s, 0xFFF0FFF0ull, len, e, 0, 2, {}, c);
}
static void sweep_huge(SweepSink &sk) {
	if (!sk.thorough()) return;
	for (uint32_t w = 0; w < 4; w++)
		if (!sk.emit({w, 5552u * 3 + 7 + w})) return;
}

int main(int argc, char **argv) {
	self_test();
	const char *rule = "case = (symbol or dispatcher@cpu-level, seed, len, placement/alignment, data kind, split points); oracle = bit-serial Rocksoft-model CRC anchored to published "
	                   "check values / RFC 1950 Adler definition (+ zlib adler32), composition law, copy form reproduces source; non-trivial: len >= 16";
	std::vector<Sub> subs = {
		{"sweep", body_sweep, 2, 0, sweep, rule},
		{"adler_huge", body_adler_huge, 2, 0, sweep_huge, rule},
		{"random", body, 24, 6, nullptr, rule},
		{"adler_limit", body_adler, 8, 1, nullptr, rule},
	};
	return pbt_main(argc, argv, "C04", subs);
}
