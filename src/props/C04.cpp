// C04 - CRC and Adler-32 results equal their mathematical definitions and compose
#include "crc_variants.h"
#include <sys/mman.h>
#include <unistd.h>
using namespace pbt;
using namespace refcrc;
using namespace crcv;

static uint64_t ref_call(const Var &v, uint64_t seed, const uint8_t *buf, size_t len) {
	if (v.kind == KADLER) return adler((uint32_t) seed, buf, len);
	return fast(v.model).run(seed, buf, len);
}

struct Sel { Var v; std::string shown; std::string key; };
static Sel select(uint32_t vi) {
	Sel s;
	if (vi < (uint32_t) NDIRECT) {
		s.v = DIRECT[vi];
		cpu::Config cfg;
		cpu::level_config(s.v.level, cfg);
		if (!cpu::host_can_run(cfg)) throw Skip(std::string("host cannot execute ") + s.v.name);
		s.shown = s.v.name;
	} else {
		uint32_t k = vi - NDIRECT;
		s.v = ENTRY[k % NENTRY];
		const char *lv = cpu::LEVEL_NAMES[(k / NENTRY) % cpu::N_LEVELS];
		kern::use_level(lv);
		s.shown = std::string(s.v.name) + "@" + lv;
	}
	s.key = std::string("crc:") + s.v.name;
	return s;
}
static const uint32_t NSEL = NDIRECT + NENTRY * 12;

static uint64_t decode_seed(Tape &t, const Var &v) {
	uint64_t M = width_mask(v);
	switch (t.range(0, 3)) {
	case 0: return 0;
	case 1: return M;
	case 2: return v.kind == KADLER ? 1 : (t.bits64() & M);
	default: {
		uint64_t s = t.bits64() & M;
		if (v.kind == KADLER) s = ((s >> 16) % 65521) << 16 | ((s & 0xFFFF) % 65521); // canonical Adler value
		return s;
	}
	}
}

// one evaluation: value vs reference, composition over split points, copy semantics, memory safety
static void run_case(const Sel &s, uint64_t seed, size_t len, const kern::Placement &pl, uint64_t dseed, int kind, const std::vector<size_t> &cuts, Ctx &c) {
	const Var &v = s.v;
	if (v.kind == KISC && len > 0x7FFFFFFF) throw Skip("crc32_iscsi takes int len");
	bool canonical = v.kind != KADLER || ((seed & 0xFFFF) < 65521 && (seed >> 16) < 65521);
	guard::Buf src = kern::alloc(len, pl, "src");
	kern::fill(src.p, len, dseed, kind);
	guard::set_readonly(src);
	guard::Buf dst;
	if (v.kind == K16C) { dst = guard::alloc(len, guard::END, "dst"); }
	uint64_t got = 0;
	guard::Fault f = guard::call([&] { got = lib_call(v, seed, src.p, len, dst.p); });
	PBT_CHECK(!f.faulted, s.key, "%s(seed=%llx,len=%zu,%s): %s", s.shown.c_str(), (unsigned long long) seed, len, pl.desc().c_str(), f.describe().c_str());
	uint64_t want = ref_call(v, seed, src.p, len);
	if (v.kind == KADLER) {
		uint32_t z = (uint32_t) adler32((uLong) (canonical ? seed : want), src.p, 0); (void) z;
		if (canonical && len < (1u << 30)) {
			uint32_t zl = (uint32_t) adler32((uLong) seed, src.p, (uInt) len);
			if (zl != want) throw OracleBug("RFC 1950 reference and zlib adler32 disagree");
		}
	}
	c.nontrivial = len >= 16;
	c.label(s.shown.find('@') == std::string::npos ? s.shown : s.shown + "->" + cpu::resolved_name(v.entry));
	if (c.want_sample) c.sample = fmt("{\"fn\":%s,\"seed\":\"%llx\",\"len\":%zu,\"placement\":%s,\"data_kind\":%d,\"cuts\":%zu,\"value\":\"%llx\"}", jstr(s.shown).c_str(), (unsigned long long) seed, len, jstr(pl.desc()).c_str(), kind, cuts.size(), (unsigned long long) got);
	if (!canonical) {
		if (got != want) c.label("noncanonical_adler_seed_mismatch(out-of-domain,not-judged)");
		return;
	}
	PBT_CHECK(got == want, s.key, "%s(seed=%llx,len=%zu,%s,data kind %d seed %llx) = %llx, definition gives %llx", s.shown.c_str(), (unsigned long long) seed, len, pl.desc().c_str(), kind, (unsigned long long) dseed, (unsigned long long) got, (unsigned long long) want);
	if (v.kind == K16C) {
		PBT_CHECK(memcmp(dst.p, src.p, len) == 0, s.key, "%s: destination differs from source (len=%zu)", s.shown.c_str(), len);
		PBT_CHECK(guard::canaries_ok(dst), s.key, "%s wrote outside dst (len=%zu)", s.shown.c_str(), len);
	}
	// composition: feed in pieces, passing each result as the next seed
	if (!cuts.empty()) {
		uint64_t run = seed;
		size_t pos = 0;
		std::vector<size_t> cs = cuts;
		cs.push_back(len);
		for (size_t cut : cs) {
			if (cut < pos) continue;
			size_t n = cut - pos;
			guard::Fault f2 = guard::call([&] { run = lib_call(v, run, src.p + pos, n, dst.p ? dst.p + pos : nullptr); });
			PBT_CHECK(!f2.faulted, s.key, "%s piece [%zu,%zu): %s", s.shown.c_str(), pos, cut, f2.describe().c_str());
			pos = cut;
		}
		PBT_CHECK(run == got, s.key, "%s: feeding len=%zu in %zu pieces gives %llx, one call gives %llx (seed %llx)", s.shown.c_str(), len, cs.size(), (unsigned long long) run, (unsigned long long) got, (unsigned long long) seed);
	}
}

static void body(Tape &t, Ctx &c) {
	uint32_t vi = (uint32_t) t.range(0, NSEL - 1);
	Sel s = select(vi);
	uint64_t seed = decode_seed(t, s.v);
	size_t len = kern::decode_len(t, 1 << 20);
	kern::Placement pl = kern::decode_placement(t);
	uint64_t dseed = t.bits64();
	int kind = (int) t.range(0, 4);
	if (kind == 4) kind = 2; // bias towards all-0xFF (Adler worst case)
	std::vector<size_t> cuts;
	size_t nc = (size_t) t.range(0, 4);
	for (size_t i = 0; i < nc && len; i++) cuts.push_back((size_t) t.spread(0, len));
	std::sort(cuts.begin(), cuts.end());
	c.fpmix(vi); c.fpmix(seed); c.fpmix(len); c.fpmix(pl.mode * 4096 + pl.off); c.fpmix(dseed); c.fpmix(kind);
	for (size_t x : cuts) c.fpmix(x);
	run_case(s, seed, len, pl, dseed, kind, cuts, c);
}

// Adler stress: lengths around multiples of 5552 with all-0xFF data and maximal canonical seed
static void body_adler(Tape &t, Ctx &c) {
	static const uint32_t AV[] = {(uint32_t) NDIRECT - 3, (uint32_t) NDIRECT - 2, (uint32_t) NDIRECT - 1};
	uint32_t which = (uint32_t) t.range(0, 3);
	uint32_t vi = which < 3 ? AV[which] : (uint32_t) (NDIRECT + (NENTRY - 1) + NENTRY * t.range(0, 11));
	Sel s = select(vi);
	size_t mult = (size_t) t.range(0, 40);
	int delta = (int) t.range(0, 128) - 64;
	size_t base = mult * 5552;
	size_t len = (size_t) ((long) base + delta < 0 ? 0 : (long) base + delta);
	uint64_t seed = t.pick<uint64_t>({0xFFF0FFF0ull, 1, 0, 0xFFF00001ull, 0x0001FFF0ull});
	kern::Placement pl = kern::decode_placement(t);
	c.fpmix(vi); c.fpmix(len); c.fpmix(seed); c.fpmix(pl.mode * 4096 + pl.off);
	run_case(s, seed, len, pl, 0, 2, {}, c);
}

// systematic: tape = {variant, len}; inside: 3 seeds end-flush, start-flush, 7 misalignments, every split point for len <= 300
static void body_sweep(Tape &t, Ctx &c) {
	uint32_t vi = (uint32_t) t.range(0, NSEL - 1);
	size_t len = (size_t) t.range(0, 8192);
	Sel s = select(vi);
	const Var &v = s.v;
	uint64_t M = width_mask(v);
	uint64_t seeds[3] = {0, v.kind == KADLER ? 0xFFF0FFF0ull : M, v.kind == KADLER ? 1 : (mix64(len * 77 + vi) & M)};
	c.fpmix(vi); c.fpmix(len);
	kern::Placement e{guard::END, 1, 0, 0}, st{guard::START, 1, 0, 1};
	for (int i = 0; i < 3; i++) run_case(s, seeds[i], len, e, len + i, i == 1 ? 2 : 0, {}, c);
	run_case(s, seeds[2], len, st, len, 0, {}, c);
	static const size_t AL[] = {1, 7, 8, 15, 16, 31, 63};
	for (size_t a : AL) {
		kern::Placement p{guard::END, 64, a, 2};
		run_case(s, seeds[2], len, p, len + a, 0, {}, c);
	}
	if (len <= 300) {
		// every split point (composition law), done on one buffer
		guard::Buf src = guard::alloc(len, guard::END, "src");
		kern::fill(src.p, len, len * 31 + vi, 0);
		guard::Buf dst = guard::alloc(len, guard::END, "dst");
		uint64_t whole = lib_call(v, seeds[2], src.p, len, dst.p);
		for (size_t cut = 0; cut <= len; cut++) {
			uint64_t a = 0, b = 0;
			guard::Fault f = guard::call([&] { a = lib_call(v, seeds[2], src.p, cut, dst.p); b = lib_call(v, a, src.p + cut, len - cut, dst.p + cut); });
			PBT_CHECK(!f.faulted, s.key, "%s split %zu/%zu: %s", s.shown.c_str(), cut, len, f.describe().c_str());
			PBT_CHECK(b == whole, s.key, "%s: f(f(s,A),B) != f(s,A||B) for len=%zu cut=%zu (%llx vs %llx)", s.shown.c_str(), len, cut, (unsigned long long) b, (unsigned long long) whole);
		}
	}
	c.label("sweep-case");
}
static void sweep(SweepSink &sk) {
	uint32_t maxlen = sk.thorough() ? 1100 : 420;
	for (uint32_t len = 0; len <= maxlen; len++) {
		for (uint32_t vi = 0; vi < (uint32_t) NDIRECT; vi++)
			if (!sk.emit({vi, len})) return;
		// dispatchers: rotate the cpu level with len
		for (uint32_t e = 0; e < (uint32_t) NENTRY; e++)
			if (!sk.emit({(uint32_t) (NDIRECT + e + NENTRY * (len % 12)), len})) return;
	}
}

// one large Adler buffer beyond MAX_ADLER_BUF (thorough only)
static void body_adler_huge(Tape &t, Ctx &c) {
	if (!opt.thorough) throw Skip("huge Adler buffer only in the thorough tier");
	uint32_t which = (uint32_t) t.range(0, 3);
	Sel s = select(which < 3 ? (uint32_t) (NDIRECT - 3 + which) : (uint32_t) (NDIRECT + NENTRY - 1 + NENTRY * 11));
	size_t len = (1u << 28) + (size_t) t.range(1, 70000);
	c.fpmix(which); c.fpmix(len);
	kern::Placement e{guard::END, 1, 0, 0};
	run_case(s, 0xFFF0FFF0ull, len, e, 0, 2, {}, c);
}
static void sweep_huge(SweepSink &sk) {
	if (!sk.thorough()) return;
	for (uint32_t w = 0; w < 4; w++)
		if (!sk.emit({w, 5552u * 3 + 7 + w})) return;
}

// ---------------------------------------------------------------- lengths of 4 GiB and more (the len argument is 64 bits wide)
// One 1 MiB tile of generated bytes is mapped over and over into a > 8 GiB stretch of address space (memfd: 1 MiB of memory).  The reference value
// is exact and independent: "update over one tile" is an affine map of the CRC register over GF(2); its matrix is measured with the bit-level
// reference (width + 1 passes over the tile), applied once per tile, and the ragged head/tail go through the reference directly.
#include <sys/syscall.h>
static const size_t TILE = 1u << 20, NTILES = 8200, ODD0 = 4096; // tiles ODD0 and ODD0+1 differ from all others
static uint8_t *g_huge;
static uint8_t *huge_map() {
	if (g_huge) return g_huge;
	int fd = (int) syscall(SYS_memfd_create, "verif-tile", 0);
	if (fd < 0 || ftruncate(fd, TILE)) throw Skip("memfd_create unavailable");
	std::vector<uint8_t> tile(TILE);
	for (size_t i = 0; i < TILE; i++) tile[i] = (uint8_t) (mix64(0x7117 + (i >> 3)) >> ((i & 7) * 8));
	if (pwrite(fd, tile.data(), TILE, 0) != (ssize_t) TILE) throw Skip("memfd write failed");
	uint8_t *base = (uint8_t *) mmap(0, TILE * NTILES, PROT_NONE, MAP_PRIVATE | MAP_ANONYMOUS | MAP_NORESERVE, -1, 0);
	if (base == MAP_FAILED) throw Skip("cannot reserve 8 GiB of address space");
	for (size_t i = 0; i < NTILES; i++)
		if (mmap(base + i * TILE, TILE, PROT_READ, MAP_SHARED | MAP_FIXED, fd, 0) == MAP_FAILED) throw Skip("cannot map tile");
	close(fd);
	// two tiles right behind the 4 GiB mark have their own content: a kernel that restarts or wraps to a wrong offset must not see the same bytes there
	uint8_t *odd = (uint8_t *) mmap(base + ODD0 * TILE, 2 * TILE, PROT_READ | PROT_WRITE, MAP_PRIVATE | MAP_ANONYMOUS | MAP_FIXED, -1, 0);
	if (odd == MAP_FAILED) throw Skip("cannot map the distinct tiles");
	for (size_t i = 0; i < 2 * TILE; i++) odd[i] = (uint8_t) (mix64(0xBEEF + (i >> 3)) >> ((i & 7) * 8));
	mprotect(odd, 2 * TILE, PROT_READ);
	return g_huge = base;
}
static void body_huge(Tape &t, Ctx &c) {
	// kernels that take a 64-bit length: crc16_t10dif, crc32_ieee, crc32_gzip_refl, crc64_*; base variants only in the thorough tier (about 10 s per call)
	std::vector<uint32_t> cand;
	for (uint32_t i = 0; i < (uint32_t) NDIRECT; i++) { Kind k = DIRECT[i].kind; if ((k == K16 || k == K32 || k == K64) && (opt.thorough || std::string(DIRECT[i].level) != "base")) cand.push_back(i); }
	for (uint32_t lvl : {11u, 6u, 4u, 1u}) for (uint32_t e = 0; e < (uint32_t) NENTRY; e++) { Kind k = ENTRY[e].kind; if (k == K16 || k == K32 || k == K64) cand.push_back(NDIRECT + lvl * NENTRY + e); }
	Sel s = select(cand[t.range(0, cand.size() - 1)]);
	uint64_t M = width_mask(s.v), seed = t.pick<uint64_t>({0, M, 0x1234, 0x123456789abcdef0ull}) & M;
	size_t off = (size_t) t.pick<uint32_t>({0, 1, 63, 64, 4095, 777});
	uint64_t len = (1ull << 32) * (uint64_t) t.pick<uint32_t>({1, 1, 1, 2}) + (uint64_t) t.pick<uint64_t>({0, 1, 15, 16, 4096, 1048576 + 7, (uint64_t) -1, (uint64_t) -4097}) ;
	c.fpmix(mix64(len)); c.fpmix(off); c.fpmix(seed); for (const char *q = s.shown.c_str(); *q; q++) c.fpmix(*q);
	uint8_t *base = huge_map();
	const uint8_t *p = base + off;
	const Fast &F = fast(s.v.model);
	int w = model(s.v.model).width;
	// reference: head up to the next tile boundary, whole tiles through the affine map, tail
	uint64_t head = std::min<uint64_t>(len, (TILE - off % TILE) % TILE), ntile = (len - head) / TILE, tail = (len - head) % TILE;
	uint64_t st = F.run(seed, p, (size_t) head);
	if (ntile) {
		const uint8_t *tp = base; // every tile except ODD0, ODD0+1 has the same bytes
		uint64_t c0 = F.run(0, tp, TILE), col[64];
		for (int i = 0; i < w; i++) col[i] = F.run(1ull << i, tp, TILE) ^ c0;
		uint64_t first_tile = (off + head) / TILE;
		for (uint64_t n = 0; n < ntile; n++) {
			uint64_t ti = first_tile + n;
			if (ti == ODD0 || ti == ODD0 + 1) { st = F.run(st, base + ti * TILE, TILE); continue; }
			uint64_t nx = c0; for (int i = 0; i < w; i++) if (st >> i & 1) nx ^= col[i]; st = nx;
		}
		// the affine shortcut itself is cross-checked on two tiles
		if (F.run(F.run(0x5a5a & M, tp, TILE), tp, TILE) != [&] { uint64_t a = 0x5a5a & M; for (int r = 0; r < 2; r++) { uint64_t nx = c0; for (int i = 0; i < w; i++) if (a >> i & 1) nx ^= col[i]; a = nx; } return a; }())
			throw OracleBug("affine tile map disagrees with the reference CRC");
	}
	uint64_t want = F.run(st, p + head + ntile * TILE, (size_t) tail);
	uint64_t got = 0;
	guard::Fault f = guard::call([&] { got = lib_call(s.v, seed, (uint8_t *) p, len, nullptr); });
	PBT_CHECK(!f.faulted, s.key, "%s(seed=%llx, len=%llu = 2^32*%llu%+lld, buffer offset %zu): %s", s.shown.c_str(), (unsigned long long) seed, (unsigned long long) len, (unsigned long long) ((len + (1ull << 31)) >> 32), (long long) (len - (((len + (1ull << 31)) >> 32) << 32)), off, f.describe().c_str());
	PBT_CHECK((got & M) == want, s.key, "%s(seed=%llx, len=%llu (>= 4 GiB), buffer offset %zu) = %llx, reference %llx", s.shown.c_str(), (unsigned long long) seed, (unsigned long long) len, off, (unsigned long long) got, (unsigned long long) want);
	c.nontrivial = true;
	c.label(s.v.entry ? s.shown + "->" + cpu::resolved_name(s.v.entry) : s.shown);
	if (c.want_sample) c.sample = fmt("{\"symbol\":%s,\"seed\":\"%llx\",\"len\":%llu,\"offset\":%zu}", jstr(s.shown).c_str(), (unsigned long long) seed, (unsigned long long) len, off);
}

// every candidate symbol once per run (length and offset rotate with the index)
static void sweep_huge_len(SweepSink &sk) {
	uint32_t ncand = 0;
	for (uint32_t i = 0; i < (uint32_t) NDIRECT; i++) { Kind k = DIRECT[i].kind; if ((k == K16 || k == K32 || k == K64) && (sk.thorough() || std::string(DIRECT[i].level) != "base")) ncand++; }
	for (uint32_t lvl = 0; lvl < 4; lvl++) for (uint32_t e = 0; e < (uint32_t) NENTRY; e++) { Kind k = ENTRY[e].kind; if (k == K16 || k == K32 || k == K64) ncand++; }
	for (uint32_t i = 0; i < ncand; i++)
		if (!sk.emit({i, i % 4, (i / 2) % 6, 0, (i * 5) % 8})) return;
}

int main(int argc, char **argv) {
	self_test();
	const char *rule = "case = (symbol or dispatcher@cpu-level, seed, len, placement/alignment, data kind, split points); oracle = bit-serial Rocksoft-model CRC anchored to published "
	                   "check values / RFC 1950 Adler definition (+ zlib adler32), composition law, copy form reproduces source; non-trivial: len >= 16";
	std::vector<Sub> subs = {
		{"sweep", body_sweep, 2, 0, sweep, rule},
		{"adler_huge", body_adler_huge, 2, 0, sweep_huge, rule},
		{"random", body, 24, 6, nullptr, rule},
		{"adler_limit", body_adler, 8, 1, nullptr, rule},
		{"huge_len", body_huge, 8, 0.0002, sweep_huge_len, "symbols with a 64-bit length argument x len = 2^32 or 2^33 +- {0,1,15,16,4096,1 MiB+7} on a buffer made of one 1 MiB tile mapped repeatedly; exact reference via the tile's affine register map measured with the bit-level reference"},
	};
	return pbt_main(argc, argv, "C04", subs);
}
