// C17 - matches never reach outside the announced window or preset dictionary
#include "igzcheck.h"
#include "datagen.h"
using namespace pbt;

#ifndef IGZIP_HIST_SIZE
#define IGZIP_HIST_SIZE ISAL_DEF_HIST_SIZE
#endif

// data = B | filler | B | filler | B ... : the nearest earlier copy of each B is exactly `d` bytes back
static void gen_window_data(Tape &t, int w, std::vector<uint8_t> &data, std::vector<size_t> &dists) {
	size_t bl = (size_t) t.range(8, 300);
	uint64_t seed = t.bits64();
	std::vector<uint8_t> B(bl);
	for (size_t i = 0; i < bl; i++) B[i] = (uint8_t) (mix64(seed + i) >> 17);
	int reps = (int) t.range(1, 3);
	data = B;
	for (int r = 0; r < reps; r++) {
		size_t base;
		switch (t.range(0, 3)) {
		case 0: case 1: base = (size_t) 1 << w; break;
		case 2: base = 32768; break;
		default: base = 65536; break; // 16-bit hash-index wrap
		}
		long delta = (long) t.range(0, 6) - 3;
		size_t d = (size_t) std::max<long>((long) bl, (long) base + delta);
		dists.push_back(d);
		size_t fill = d - bl;
		uint64_t fs = mix64(seed * 7 + r);
		int fk = (int) t.range(0, 1);
		for (size_t i = 0; i < fill; i++) data.push_back(fk == 0 ? (uint8_t) (mix64(fs + (i >> 3)) >> ((i & 7) * 8)) : (uint8_t) (0x80 | ((mix64(fs + i / 5) >> 7) & 0x3F))); // never equal to B's neighbourhood by construction of seeds
		data.insert(data.end(), B.begin(), B.end());
	}
	size_t tail = (size_t) t.range(0, 40);
	for (size_t i = 0; i < tail; i++) data.push_back((uint8_t) (mix64(seed * 11 + i) >> 5));
}

static void body_window(Tape &t, Ctx &c) {
	int w = (int) t.pick<uint32_t>({9, 10, 11, 12, 13, 14, 15, 15, 1, 2, 4, 7, 8});
	std::vector<uint8_t> data;
	std::vector<size_t> dists;
	gen_window_data(t, w, data, dists);
	igz::DefOpts o;
	o.level = (int) t.range(0, 3);
	o.hist_bits = w;
	o.gzip_flag = (int) t.pick<uint32_t>({IGZIP_DEFLATE, IGZIP_ZLIB, IGZIP_GZIP, IGZIP_ZLIB_NO_HDR});
	o.lbuf_size = igz::lvl_buf_size(o.level, (int) t.range(0, 4));
	o.stateless = t.range(0, 2) == 0;
	const char *lv = cpu::LEVEL_NAMES[t.pick<uint32_t>({11, 0, 1, 6, 8, 4, 10})];
	igzc::StreamPlan p = igzc::decode_plan(t, data.size());
	kern::use_level(lv);
	c.fpmix(w); c.fpmix(mix64(data.size())); for (size_t d : dists) c.fpmix(d); for (size_t i = 0; i < 32 && i < data.size(); i++) c.fpmix(data[i]);
	c.fpmix(o.level * 100 + o.gzip_flag * 10 + o.stateless); c.fpmix(mix64((uint64_t) (uintptr_t) lv)); c.fpmix(p.in.mode * 7 + p.in.param); c.fpmix(p.out.mode * 7 + p.out.param); c.fpmix(p.flush_mode);
	igz::Deflater d(o);
	std::string ds;
	for (size_t x : dists) ds += std::to_string(x) + " ";
	std::string where = fmt("hist_bits %d, level %d, gzip_flag %d, %s, cpu %s, %zu bytes with repeats at distances {%s}", w, o.level, o.gzip_flag, o.stateless ? "stateless" : "streaming", lv, data.size(), ds.c_str());
	if (o.stateless) {
		igz::CallInfo ci = d.call(data.data(), data.size(), data.size() + data.size() / 8 + 4096, t.coin() ? FULL_FLUSH : NO_FLUSH, true);
		PBT_CHECK(!ci.faulted && ci.problem.empty(), "window:fault", "%s: %s", where.c_str(), ci.problem.c_str());
		PBT_CHECK(ci.rc == COMP_OK, "window:rc", "%s: rc %d", where.c_str(), ci.rc);
	} else {
		std::string ks, err = igzc::run_stream(d, data, p, ks);
		if (ks == "inconclusive") throw Skip("inconclusive");
		PBT_CHECK(err.empty(), "window:" + ks, "%s (in %s out %s flush-mode %d): %s", where.c_str(), p.in.text().c_str(), p.out.text().c_str(), p.flush_mode, err.c_str());
	}
	// a decoder with a 2^w window suffices (zlib raw inflate with windowBits = max(w, 9)); the zlib header announces at least that window
	refinf::Result ri;
	std::string v = igzc::verify_stream(d.out, data, o.gzip_flag, w, &ri);
	PBT_CHECK(v.empty(), "window:decode", "%s: %s", where.c_str(), v.c_str());
	uint32_t limit = std::min<uint32_t>(1u << w, 32768);
	limit = std::min<uint32_t>(limit, IGZIP_HIST_SIZE);
	if (w >= 9) PBT_CHECK(ri.max_dist <= limit, "window:distance", "%s: a match has distance %u > 2^%d", where.c_str(), ri.max_dist, w);
	else if (ri.max_dist > (1u << w)) c.label("w<9:distance-beyond-2^w(not-claimed)");
	PBT_CHECK(ri.max_dist <= 32768, "window:distance", "%s: a match has distance %u > 32768", where.c_str(), ri.max_dist);
	for (auto &b : ri.blocks) if (b.matches) PBT_CHECK(b.min_src >= 0, "window:distance", "%s: a match reaches before the first byte of the stream", where.c_str());
	if (o.gzip_flag == IGZIP_ZLIB) {
		int cinfo = d.out[0] >> 4;
		PBT_CHECK(cinfo + 8 >= std::min(w, 15) || (1u << (cinfo + 8)) >= ri.max_dist, "window:zlib-header", "%s: zlib header announces a 2^%d window", where.c_str(), cinfo + 8);
		if (w >= 9) PBT_CHECK(cinfo + 8 >= w, "window:zlib-header", "%s: zlib header announces a 2^%d window, smaller than requested", where.c_str(), cinfo + 8);
	}
	c.nontrivial = ri.max_dist > (1u << (w - 1));
	c.label(fmt("w=%d", w));
	c.label(fmt("level=%d", o.level));
	if (ri.max_dist == limit) c.label("match-at-exactly-window-size");
	if (c.want_sample) c.sample = fmt("{\"hist_bits\":%d,\"level\":%d,\"gzip_flag\":%d,\"stateless\":%d,\"cpu\":\"%s\",\"data_bytes\":%zu,\"repeat_distances\":\"%s\",\"max_match_distance\":%u}", w, o.level, o.gzip_flag, (int) o.stateless, lv, data.size(), ds.c_str(), ri.max_dist);
}

// ---------------------------------------------------------------------------------------------------------- dictionaries
struct DictCase { std::vector<uint8_t> dict, data; int level; int gzip_flag; uint32_t lbuf; const char *lv; int hist_bits; };

static void gen_dict_case(Tape &t, DictCase &k) {
	size_t dl = (size_t) t.pick<uint32_t>({1, 2, 3, 100, 1000, 32767, 32768, 32769, 40000, 70000, 8191, 8192, 8193}) ;
	if (t.coin()) dl = (size_t) t.spread(1, 70000);
	uint64_t seed = t.bits64();
	k.dict.resize(dl);
	int dk = (int) t.range(0, 2);
	for (size_t i = 0; i < dl; i++) k.dict[i] = dk == 0 ? (uint8_t) (mix64(seed + (i >> 3)) >> ((i & 7) * 8)) : dk == 1 ? (uint8_t) ("lorem ipsum dolor sit amet "[(i + mix64(seed + i / 11) % 3) % 27]) : (uint8_t) (mix64(seed + i / 3) >> 9);
	// data shares content with the dictionary tail, with its head (possibly beyond the window), and has own content
	k.data.clear();
	int parts = (int) t.range(1, 4);
	for (int p = 0; p < parts; p++) {
		size_t n = (size_t) t.range(3, 400);
		switch (t.range(0, 3)) {
		case 0: { size_t from = dl > n ? dl - n - (size_t) t.range(0, std::min<size_t>(dl - n, 300)) : 0; for (size_t i = 0; i < n && from + i < dl; i++) k.data.push_back(k.dict[from + i]); break; } // tail
		case 1: { for (size_t i = 0; i < n && i < dl; i++) k.data.push_back(k.dict[i]); break; }                                                                               // head
		case 2: { size_t from = (size_t) t.spread(0, dl - 1); for (size_t i = 0; i < n && from + i < dl; i++) k.data.push_back(k.dict[from + i]); break; }                      // anywhere
		default: { uint64_t s2 = t.bits64(); for (size_t i = 0; i < n; i++) k.data.push_back((uint8_t) (mix64(s2 + i) >> 13)); break; }
		}
	}
	if (t.range(0, 4) == 0) { std::vector<dg::Seg> segs; dg::gen(t, segs, 40000); std::vector<uint8_t> more; dg::expand(segs, more); k.data.insert(k.data.end(), more.begin(), more.end()); }
	k.level = (int) t.range(0, 3);
	k.gzip_flag = (int) t.pick<uint32_t>({IGZIP_DEFLATE, IGZIP_DEFLATE, IGZIP_GZIP});
	k.lbuf = igz::lvl_buf_size(k.level, (int) t.range(0, 4));
	k.lv = cpu::LEVEL_NAMES[t.pick<uint32_t>({11, 0, 1, 6, 8})];
	k.hist_bits = (int) t.pick<uint32_t>({0, 0, 15, 12});
}

// compress `data` after priming with `dict` (mode 0: isal_deflate_set_dict, 1: process_dict + reset_dict); returns the stream
static std::vector<uint8_t> deflate_with_dict(const DictCase &k, const std::vector<uint8_t> &dict, int mode, igzc::StreamPlan p, std::string &err, int *set_rc = nullptr) {
	igz::DefOpts o;
	o.level = k.level; o.gzip_flag = k.gzip_flag; o.lbuf_size = k.lbuf; o.hist_bits = k.hist_bits;
	// half of the time the window size is written into the stream struct only after the dictionary call (any order before the first isal_deflate is legal)
	bool late_hist_bits = k.hist_bits != 0 && (mix64(k.data.size() + (uint64_t) mode * 977 + dict.size()) & 1);
	if (late_hist_bits) o.hist_bits = 0;
	igz::Deflater d(o);
	guard::Buf db = guard::alloc_copy(dict.data(), dict.size(), guard::END, "dictionary");
	guard::set_readonly(db);
	int rc = 0;
	guard::Fault f;
	if (mode == 0) f = guard::call([&] { rc = isal_deflate_set_dict(d.s, db.p, (uint32_t) dict.size()); });
	else {
		guard::Buf ds = guard::alloc(sizeof(struct isal_dict), guard::END, "isal_dict", 8, 0);
		memset(ds.p, 0, sizeof(struct isal_dict)); // the in-tree callers zero it: process_dict reads dict->level first
		f = guard::call([&] { rc = isal_deflate_process_dict(d.s, (struct isal_dict *) ds.p, db.p, (uint32_t) dict.size()); });
		if (!f.faulted && rc == COMP_OK) {
			PBT_CHECK(guard::canaries_ok(ds), "dict:memory", "isal_deflate_process_dict wrote outside struct isal_dict");
			guard::set_readonly(ds);
			f = guard::call([&] { rc = isal_deflate_reset_dict(d.s, (struct isal_dict *) ds.p); });
		}
	}
	if (set_rc) *set_rc = rc;
	if (f.faulted) { err = "dictionary call: " + f.describe(); return {}; }
	if (rc != COMP_OK) { err = fmt("dictionary call returned %d", rc); return {}; }
	guard::retire(db); // the dictionary is copied: the caller may free it
	if (late_hist_bits) { d.o.hist_bits = k.hist_bits; d.s->hist_bits = (uint16_t) k.hist_bits; }
	std::string ks;
	std::string e = igzc::run_stream(d, k.data, p, ks);
	if (ks == "inconclusive") throw Skip("inconclusive");
	if (!e.empty()) { err = ks + ": " + e; return {}; }
	return d.out;
}

static void body_dict(Tape &t, Ctx &c) {
	DictCase k;
	gen_dict_case(t, k);
	igzc::StreamPlan p = igzc::decode_plan(t, k.data.size());
	p.flush_mode = (int) t.pick<uint32_t>({0, 0, 1, 2});
	kern::use_level(k.lv);
	c.fpmix(mix64(k.dict.size())); c.fpmix(mix64(k.data.size()) * 3); for (size_t i = 0; i < 24 && i < k.dict.size(); i++) c.fpmix(k.dict[i]); for (size_t i = 0; i < 24 && i < k.data.size(); i++) c.fpmix(k.data[i]);
	c.fpmix(k.level * 10 + k.gzip_flag); c.fpmix(mix64((uint64_t) (uintptr_t) k.lv)); c.fpmix(p.in.mode * 7 + p.in.param); c.fpmix(p.out.mode * 7 + p.out.param); c.fpmix(p.flush_mode); c.fpmix(k.hist_bits);
	std::string where = fmt("dictionary of %zu bytes, %zu data bytes, level %d, gzip_flag %d, hist_bits %d, cpu %s, in %s out %s flush-mode %d", k.dict.size(), k.data.size(), k.level, k.gzip_flag, k.hist_bits, k.lv, p.in.text().c_str(), p.out.text().c_str(), p.flush_mode);
	std::string err;
	std::vector<uint8_t> s_set = deflate_with_dict(k, k.dict, 0, p, err);
	PBT_CHECK(err.empty(), "dict:set_dict", "%s: %s", where.c_str(), err.c_str());
	// only the last window-size bytes of a longer dictionary matter
	size_t win = IGZIP_HIST_SIZE;
	std::vector<uint8_t> tail(k.dict.size() > win ? k.dict.end() - win : k.dict.begin(), k.dict.end());
	// (1) round trip: reference decoder / zlib / ISA-L inflate, each primed with the same dictionary
	size_t hdr, trl;
	igz::wrapper_sizes(k.gzip_flag, hdr, trl);
	refinf::Options ro;
	ro.dict = tail.data(); ro.dict_len = tail.size(); ro.max_out = k.data.size() + 64;
	PBT_CHECK(s_set.size() >= hdr + trl, "dict:decode", "%s: output shorter than the wrapper", where.c_str());
	refinf::Result ri = refinf::inflate(s_set.data() + hdr, s_set.size() - hdr - trl, ro);
	PBT_CHECK(ri.st == refinf::OK && ri.out == k.data, "dict:decode", "%s: the reference decoder primed with the dictionary reports %s (%zu bytes)", where.c_str(), refinf::status_name(ri.st), ri.out.size());
	for (auto &b : ri.blocks) if (b.matches) PBT_CHECK(b.min_src >= -(int64_t) tail.size(), "dict:reach", "%s: a match reaches %lld bytes before the stream but only %zu dictionary bytes exist", where.c_str(), (long long) -b.min_src, tail.size());
	PBT_CHECK(ri.max_dist <= 32768 && ri.max_dist <= win, "dict:reach", "%s: match distance %u exceeds the window", where.c_str(), ri.max_dist);
	igz::ZOut z = igz::zlib_inflate(s_set.data() + hdr, s_set.size() - hdr - trl, -15, k.data.size() + 64, tail.data(), tail.size());
	PBT_CHECK(z.rc == Z_STREAM_END && z.out == k.data, "dict:decode", "%s: zlib with inflateSetDictionary returns %d (%s), %zu bytes", where.c_str(), z.rc, z.msg.c_str(), z.out.size());
	{
		igz::InfOpts io;
		io.crc_flag = k.gzip_flag == IGZIP_GZIP ? ISAL_GZIP : ISAL_DEFLATE;
		io.dict = k.dict.data(); io.dict_len = k.dict.size();
		igz::Inflater inf(io); // the dictionary is set right after isal_inflate_init, as documented
		PBT_CHECK(inf.dict_rc == COMP_OK, "dict:inflate", "%s: isal_inflate_set_dict returned %d", where.c_str(), inf.dict_rc);
		size_t off = 0;
		igz::CallInfo ci = inf.call(s_set.data() + off, s_set.size() - off, k.data.size() + 64);
		int extra = 0;
		while (!ci.faulted && ci.problem.empty() && ci.rc == 0 && !inf.finished() && extra++ < 8) ci = inf.call(nullptr, 0, k.data.size() + 64);
		PBT_CHECK(!ci.faulted && ci.problem.empty(), "dict:inflate", "%s: %s", where.c_str(), ci.problem.c_str());
		PBT_CHECK(ci.rc == 0 && inf.finished() && inf.out == k.data, "dict:inflate", "%s: ISA-L inflate primed with the same dictionary ends with rc %d finished %d, %zu bytes", where.c_str(), ci.rc, (int) inf.finished(), inf.out.size());
	}
	bool in_dict = false;
	for (auto &b : ri.blocks) if (b.matches && b.min_src < 0) in_dict = true;
	// (2) same stream with only the tail, and via the pre-processed form (byte equality: same bytes hashed with the same mask at total_in == 0)
	guard::release_all();
	std::vector<uint8_t> s_tail = deflate_with_dict(k, tail, 0, p, err);
	PBT_CHECK(err.empty(), "dict:set_dict", "%s (tail only): %s", where.c_str(), err.c_str());
	PBT_CHECK(s_tail == s_set, "dict:tail-only", "%s: compressing with the full %zu-byte dictionary and with only its last %zu bytes gives different streams (%zu vs %zu bytes)", where.c_str(), k.dict.size(), tail.size(), s_set.size(), s_tail.size());
	guard::release_all();
	std::vector<uint8_t> s_proc = deflate_with_dict(k, k.dict, 1, p, err);
	PBT_CHECK(err.empty(), "dict:process_reset", "%s (process_dict + reset_dict): %s", where.c_str(), err.c_str());
	PBT_CHECK(s_proc == s_set, "dict:process_reset", "%s: the pre-processed dictionary gives a different stream than isal_deflate_set_dict (%zu vs %zu bytes, first difference at %zu)", where.c_str(), s_proc.size(), s_set.size(),
	          (size_t) (std::mismatch(s_proc.begin(), s_proc.begin() + std::min(s_proc.size(), s_set.size()), s_set.begin()).first - s_proc.begin()));
	c.nontrivial = in_dict;
	c.label(fmt("level=%d", k.level));
	if (k.dict.size() > win) c.label("dict>window");
	if (in_dict) c.label("match-into-dictionary");
	if (c.want_sample) c.sample = fmt("{\"dict_bytes\":%zu,\"data_bytes\":%zu,\"level\":%d,\"gzip_flag\":%d,\"cpu\":\"%s\",\"in\":\"%s\",\"out\":\"%s\",\"compressed\":%zu,\"match_into_dictionary\":%d}", k.dict.size(), k.data.size(), k.level, k.gzip_flag, k.lv, p.in.text().c_str(), p.out.text().c_str(), s_set.size(), (int) in_dict);
}

// dictionary calls in a wrong state are refused without side effects
static void body_dict_refused(Tape &t, Ctx &c) {
	DictCase k;
	gen_dict_case(t, k);
	if (k.data.size() < 40) throw Skip("data too small");
	kern::use_level(k.lv);
	int kind = (int) t.range(0, 2); // 0 set_dict mid-stream, 1 reset_dict mid-stream, 2 level changed between process and reset
	size_t first = (size_t) t.range(1, k.data.size() - 1);
	size_t cap = (size_t) t.pick<uint32_t>({1, 7, 8, 30, 100000});
	c.fpmix(kind); c.fpmix(mix64(k.dict.size())); c.fpmix(mix64(k.data.size())); c.fpmix(first); c.fpmix(cap); c.fpmix(k.level * 10 + k.gzip_flag);
	std::vector<uint8_t> outs[2];
	int rcs[2] = {0, 0}, state_at = 0;
	for (int twin = 0; twin < 2; twin++) { // twin 0 makes the wrong-state call, twin 1 does not
		igz::DefOpts o;
		o.level = k.level; o.gzip_flag = k.gzip_flag; o.lbuf_size = k.lbuf;
		igz::Deflater d(o);
		guard::Buf ds = guard::alloc(sizeof(struct isal_dict), guard::END, "isal_dict", 8, 0);
		memset(ds.p, 0, sizeof(struct isal_dict));
		guard::Buf db = guard::alloc_copy(k.dict.data(), k.dict.size(), guard::END, "dictionary");
		if (kind == 2) {
			if (twin == 0) {
				int other = (k.level + 1 + (int) (first % 3)) % 4;
				uint32_t save = d.s->level;
				d.s->level = other;
				int prc = isal_deflate_process_dict(d.s, (struct isal_dict *) ds.p, db.p, (uint32_t) k.dict.size());
				d.s->level = save;
				PBT_CHECK(prc == COMP_OK, "dict:refused", "isal_deflate_process_dict returned %d", prc);
				rcs[0] = isal_deflate_reset_dict(d.s, (struct isal_dict *) ds.p);
				PBT_CHECK(rcs[0] == ISAL_INVALID_STATE, "dict:refused", "isal_deflate_reset_dict with a dictionary processed for level %d on a level %d stream returned %d instead of ISAL_INVALID_STATE", other, k.level, rcs[0]);
			}
		}
		igz::CallInfo ci = d.call(k.data.data(), first, cap, NO_FLUSH, false);
		PBT_CHECK(!ci.faulted && ci.problem.empty() && ci.rc == COMP_OK, "dict:refused", "first call: rc %d %s", ci.rc, ci.problem.c_str());
		if (kind < 2 && twin == 0) {
			state_at = (int) d.s->internal_state.state;
			bool buffered = d.s->internal_state.b_bytes_processed != d.s->internal_state.b_bytes_valid;
			if (kind == 1) { struct isal_zstream tmp; isal_deflate_init(&tmp); tmp.level = k.level; isal_deflate_process_dict(&tmp, (struct isal_dict *) ds.p, db.p, (uint32_t) k.dict.size()); }
			guard::Fault f = guard::call([&] { rcs[0] = kind == 0 ? isal_deflate_set_dict(d.s, db.p, (uint32_t) k.dict.size()) : isal_deflate_reset_dict(d.s, (struct isal_dict *) ds.p); });
			PBT_CHECK(!f.faulted, "dict:refused", "wrong-state dictionary call: %s", f.describe().c_str());
			if (state_at != ZSTATE_NEW_HDR || buffered) PBT_CHECK(rcs[0] == ISAL_INVALID_STATE, "dict:refused", "%s with state %d%s returned %d instead of ISAL_INVALID_STATE", kind == 0 ? "isal_deflate_set_dict" : "isal_deflate_reset_dict", state_at, buffered ? " and buffered input" : "", rcs[0]);
			else throw Skip("stream happened to be in ZSTATE_NEW_HDR with nothing buffered: the call is legal there");
		}
		size_t pos = first;
		int guardc = 0;
		while (!d.finished()) {
			size_t add = k.data.size() - pos;
			ci = d.call(k.data.data() + pos, add, k.data.size() * 2 + 4096, NO_FLUSH, true);
			pos += add;
			PBT_CHECK(!ci.faulted && ci.problem.empty() && ci.rc == COMP_OK, "dict:refused", "finishing call: rc %d %s", ci.rc, ci.problem.c_str());
			PBT_CHECK(++guardc < 100, "dict:refused", "stream does not finish");
		}
		outs[twin] = d.out;
		guard::release_all();
	}
	PBT_CHECK(outs[0] == outs[1], "dict:refused", "a refused dictionary call (kind %d, rc %d, state %d) changed the stream: %zu vs %zu bytes", kind, rcs[0], state_at, outs[0].size(), outs[1].size());
	std::string v = igzc::verify_stream(outs[0], k.data, k.gzip_flag, 0);
	PBT_CHECK(v.empty(), "dict:refused", "stream after a refused dictionary call does not decode: %s", v.c_str());
	c.nontrivial = true;
	c.label(kind == 0 ? "set_dict-mid-stream" : kind == 1 ? "reset_dict-mid-stream" : "level-changed");
	if (c.want_sample) c.sample = fmt("{\"kind\":%d,\"dict_bytes\":%zu,\"data_bytes\":%zu,\"level\":%d,\"first_chunk\":%zu,\"state_at_call\":%d,\"rc\":%d}", kind, k.dict.size(), k.data.size(), k.level, first, state_at, rcs[0]);
}

int main(int argc, char **argv) {
	refcrc::self_test();
	std::vector<Sub> subs = {
		{"window", body_window, 64, 6, nullptr, "hist_bits w in 9..15 (1..8 for the round trip), data = B|filler|B with the repeat exactly at 2^w+-3 / 32768+-3 / 65536+-3, x level x flush x one-shot/streaming x cpu level: every match distance (reference decoder) <= 2^w and <= 32768, no match before the first byte, zlib raw inflate with windowBits w succeeds, zlib CINFO+8 >= w; non-trivial: a match with distance > 2^(w-1)"},
		{"dictionary", body_dict, 96, 5, nullptr, "dictionaries of 1..70000 bytes x data sharing content with the dictionary tail / head / anywhere: reference decoder, zlib (inflateSetDictionary) and ISA-L inflate (isal_inflate_set_dict) primed with the dictionary return the input; no match reaches beyond the dictionary; byte-identical streams for the full dictionary, its last window bytes, and process_dict+reset_dict; non-trivial: a match whose source lies in the dictionary"},
		{"dictionary_refused", body_dict_refused, 64, 2, nullptr, "set_dict / reset_dict mid-stream and reset_dict after a level change: ISAL_INVALID_STATE and exactly the bytes a stream without the call produces"},
	};
	return pbt_main(argc, argv, "C17", subs);
}
