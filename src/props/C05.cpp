// C05 - every entry point touches only the memory the caller declared; consumed input is never revisited
#include "streams.h"
#include "crc_variants.h"
#include "raid_variants.h"
#include "ec_variants.h"
extern "C" {
#include "mem_routines.h"
int mem_zero_detect_base(void *, size_t);
int mem_zero_detect_sse(void *, size_t);
int mem_zero_detect_avx(void *, size_t);
int mem_zero_detect_avx2(void *, size_t);
int mem_zero_detect_avx512(void *, size_t);
void isal_update_histogram_base(uint8_t *, int, struct isal_huff_histogram *);
void isal_update_histogram_01(uint8_t *, int, struct isal_huff_histogram *);
void isal_update_histogram_04(uint8_t *, int, struct isal_huff_histogram *);
}
using namespace pbt;

// lengths that matter for a vector kernel of width w: 0, 1, every remainder up to 2*w+1, page crossing
static size_t pick_len(Tape &t, size_t minlen, size_t mult) {
	size_t v;
	switch (t.range(0, 4)) {
	case 0: v = (size_t) t.range(0, 3); break;
	case 1: v = (size_t) t.range(0, 257); break;
	case 2: v = (size_t) t.range(0, 1100); break;
	case 3: v = 4096 + (size_t) t.range(0, 200) - 100; break;
	default: v = (size_t) t.spread(0, 20000); break;
	}
	if (v < minlen) v += minlen;
	if (mult > 1) v -= v % mult;
	return v;
}
static kern::Placement flush_place(Tape &t, size_t req) {
	kern::Placement p;
	p.mode = (int) t.range(0, 1); // only the two flush placements: the point of this property is the page boundary
	p.pl = p.mode ? guard::START : guard::END;
	p.mod = req; p.off = 0;
	return p;
}

// (a) every kernel symbol, flush placements
static void body_kernels(Tape &t, Ctx &c) {
	int fam = (int) t.range(0, 5);
	std::string name;
	guard::Fault f;
	size_t len = 0;
	kern::Placement sp, dp;
	c.fpmix(fam);
	if (fam == 0) { // CRC / Adler (direct + dispatched under a cpu level)
		uint32_t vi = (uint32_t) t.range(0, crcv::NDIRECT + crcv::NENTRY * 12 - 1);
		crcv::Var v;
		if (vi < (uint32_t) crcv::NDIRECT) { v = crcv::DIRECT[vi]; cpu::Config cfg; cpu::level_config(v.level, cfg); if (!cpu::host_can_run(cfg)) throw Skip("host cannot execute variant"); name = v.name; }
		else { uint32_t k = vi - crcv::NDIRECT; v = crcv::ENTRY[k % crcv::NENTRY]; const char *lv = cpu::LEVEL_NAMES[(k / crcv::NENTRY) % cpu::N_LEVELS]; kern::use_level(lv); name = std::string(v.name) + "@" + lv; }
		len = pick_len(t, 0, 1);
		sp = flush_place(t, 1);
		uint64_t seed = t.bits64();
		guard::Buf src = kern::alloc(len, sp, "src");
		kern::fill(src.p, len, seed, 0);
		guard::set_readonly(src);
		guard::Buf dst;
		if (v.kind == crcv::K16C) { dp = flush_place(t, 1); dst = kern::alloc(len, dp, "dst"); }
		f = guard::call([&] { crcv::lib_call(v, seed & crcv::width_mask(v), src.p, len, dst.p); });
		PBT_CHECK(!f.faulted, "memory:" + std::string(v.name), "%s(len=%zu, src %s%s): %s", name.c_str(), len, sp.desc().c_str(), v.kind == crcv::K16C ? (", dst " + dp.desc()).c_str() : "", f.describe().c_str());
		if (v.kind == crcv::K16C) PBT_CHECK(guard::canaries_ok(dst), "memory:" + std::string(v.name), "%s wrote outside dst", name.c_str());
		c.fpmix(vi); c.fpmix(len); c.fpmix(sp.mode);
	} else if (fam == 1) { // zero detect
		typedef int (*zfn)(void *, size_t);
		static const struct { const char *n; zfn fn; const char *lv; } Z[] = {{"mem_zero_detect_base", mem_zero_detect_base, "base"}, {"mem_zero_detect_sse", mem_zero_detect_sse, "sse"}, {"mem_zero_detect_avx", mem_zero_detect_avx, "avx"}, {"mem_zero_detect_avx2", mem_zero_detect_avx2, "avx2"}, {"mem_zero_detect_avx512", mem_zero_detect_avx512, "avx512"}};
		int vi = (int) t.range(0, 4 + cpu::N_LEVELS);
		zfn fn;
		if (vi < 5) { cpu::Config cfg; cpu::level_config(Z[vi].lv, cfg); if (!cpu::host_can_run(cfg)) throw Skip("host cannot execute variant"); fn = Z[vi].fn; name = Z[vi].n; }
		else { const char *lv = cpu::LEVEL_NAMES[vi - 5]; kern::use_level(lv); fn = (zfn) isal_zero_detect; name = std::string("isal_zero_detect@") + lv; }
		len = pick_len(t, 0, 1);
		sp = flush_place(t, 1);
		guard::Buf b = kern::alloc(len, sp, "region");
		// the access pattern depends on the data: all zero (full scan), all 0xFF / random non-zero (early exit), zero with a saturated final chunk
		static const size_t TAIL[] = {0, 0, 0, 16, 32, 64, 128};
		int dk = (int) t.range(0, 6);
		memset(b.p, 0, len);
		if (dk == 1) memset(b.p, 0xFF, len);
		else if (dk == 2) kern::fill(b.p, len, t.bits64(), 0);
		else if (dk >= 3) { size_t tl = std::min(TAIL[dk], len); memset(b.p + len - tl, 0xFF, tl); }
		guard::set_readonly(b);
		f = guard::call([&] { fn(b.p, len); });
		PBT_CHECK(!f.faulted, "memory:" + name.substr(0, name.find('@')), "%s(len=%zu, %s, data kind %d): %s", name.c_str(), len, sp.desc().c_str(), dk, f.describe().c_str());
		c.fpmix(vi); c.fpmix(len); c.fpmix(sp.mode); c.fpmix(dk);
	} else if (fam == 2 || fam == 3) { // EC dot product / mad kernels and encode / update entry points
		bool mad = fam == 3;
		int nk = mad ? ecv::NMAD : ecv::NDOT;
		int ki = (int) t.range(0, nk + ecv::NENC + cpu::N_LEVELS - 1);
		int k = (int) t.range(1, 9), rows;
		bool gfni = false, disp = false;
		void *fn = nullptr;
		int n1 = 0;
		size_t minlen = 0;
		if (ki < nk) { const ecv::Kernel &kn = mad ? ecv::MAD[ki] : ecv::DOT[ki]; ecv::require_family(kn.fam, kn.name); rows = kn.n; n1 = kn.n; fn = kn.fn; name = kn.name; gfni = ecv::FAM[kn.fam].gfni; minlen = ecv::FAM[kn.fam].minlen; }
		else if (ki < nk + ecv::NENC) { int e = ki - nk; rows = (int) t.range(1, 13); ecv::require_family(mad ? ecv::UPDS[e].fam : ecv::ENCS[e].fam, "family"); fn = mad ? (void *) ecv::UPDS[e].fn : (void *) ecv::ENCS[e].fn; name = mad ? ecv::UPDS[e].name : ecv::ENCS[e].name; gfni = ecv::FAM[ecv::ENCS[e].fam].gfni; }
		else { const char *lv = cpu::LEVEL_NAMES[ki - nk - ecv::NENC]; kern::use_level(lv); rows = (int) t.range(1, 13); fn = mad ? (void *) ec_encode_data_update : (void *) ec_encode_data; name = std::string(mad ? "ec_encode_data_update@" : "ec_encode_data@") + lv; disp = true; }
		len = pick_len(t, minlen, 1);
		sp = flush_place(t, 1); dp = flush_place(t, 1);
		int vec_i = (int) t.range(0, k - 1);
		std::vector<uint8_t> coef((size_t) k * rows);
		uint64_t seed = t.bits64();
		for (size_t i = 0; i < coef.size(); i++) coef[i] = (uint8_t) (mix64(seed + i) >> 7);
		guard::Buf tb = guard::alloc((size_t) 32 * k * rows, guard::END, "g_tbls", 64, (seed >> 40) & 3 ? (size_t) ((seed >> 44) % 64) : 0); // no alignment is documented for the tables
		if (disp) ec_init_tables(k, rows, coef.data(), tb.p); else ecv::build_tables(gfni, k, rows, coef.data(), tb.p);
		guard::set_readonly(tb);
		std::vector<guard::Buf> src, dst;
		for (int j = 0; j < (mad ? 1 : k); j++) { guard::Buf s = kern::alloc(len, sp, "src"); kern::fill(s.p, len, seed + j, 0); guard::set_readonly(s); src.push_back(s); }
		for (int r = 0; r < rows; r++) dst.push_back(kern::alloc(len, dp, mad ? "parity" : "dest"));
		guard::Buf sv = guard::alloc(sizeof(void *) * src.size(), guard::END, "src pointer array", 8, 0), dv = guard::alloc(sizeof(void *) * rows, guard::END, "dest pointer array", 8, 0);
		for (size_t j = 0; j < src.size(); j++) ((uint8_t **) sv.p)[j] = src[j].p;
		for (int r = 0; r < rows; r++) ((uint8_t **) dv.p)[r] = dst[r].p;
		guard::set_readonly(sv); guard::set_readonly(dv);
		f = guard::call([&] {
			if (ki < nk) {
				if (!mad) { if (n1 == 1) ((void (*)(int, int, unsigned char *, unsigned char **, unsigned char *)) fn)((int) len, k, tb.p, (uint8_t **) sv.p, dst[0].p); else ((void (*)(int, int, unsigned char *, unsigned char **, unsigned char **)) fn)((int) len, k, tb.p, (uint8_t **) sv.p, (uint8_t **) dv.p); }
				else { if (n1 == 1) ((void (*)(int, int, int, unsigned char *, unsigned char *, unsigned char *)) fn)((int) len, k, vec_i, tb.p, src[0].p, dst[0].p); else ((void (*)(int, int, int, unsigned char *, unsigned char *, unsigned char **)) fn)((int) len, k, vec_i, tb.p, src[0].p, (uint8_t **) dv.p); }
			} else if (!mad) ((ecv::enc_fn) fn)((int) len, k, rows, tb.p, (uint8_t **) sv.p, (uint8_t **) dv.p);
			else ((ecv::upd_fn) fn)((int) len, k, rows, vec_i, tb.p, src[0].p, (uint8_t **) dv.p);
		});
		PBT_CHECK(!f.faulted, "memory:" + name.substr(0, name.find('@')), "%s(len=%zu,k=%d,rows=%d, src %s, dest %s): %s", name.c_str(), len, k, rows, sp.desc().c_str(), dp.desc().c_str(), f.describe().c_str());
		for (auto &d : dst) PBT_CHECK(guard::canaries_ok(d), "memory:" + name.substr(0, name.find('@')), "%s wrote outside a destination block (len=%zu)", name.c_str(), len);
		c.fpmix(ki); c.fpmix(len); c.fpmix(k * 100 + rows); c.fpmix(sp.mode * 2 + dp.mode);
	} else if (fam == 4) { // gf_vect_mul
		typedef int (*mfn)(int, unsigned char *, void *, void *);
		static const struct { const char *n; mfn fn; const char *lv; } M[] = {{"gf_vect_mul_base", (mfn) gf_vect_mul_base, "base"}, {"gf_vect_mul_sse", (mfn) gf_vect_mul_sse, "sse"}, {"gf_vect_mul_avx", (mfn) gf_vect_mul_avx, "avx"}};
		int vi = (int) t.range(0, 2 + cpu::N_LEVELS);
		mfn fn;
		if (vi < 3) { cpu::Config cfg; cpu::level_config(M[vi].lv, cfg); if (!cpu::host_can_run(cfg)) throw Skip("host cannot execute variant"); fn = M[vi].fn; name = M[vi].n; }
		else { const char *lv = cpu::LEVEL_NAMES[vi - 3]; kern::use_level(lv); fn = (mfn) gf_vect_mul; name = std::string("gf_vect_mul@") + lv; }
		len = pick_len(t, 0, 32);
		sp = flush_place(t, 32); dp = flush_place(t, 32);
		guard::Buf tb = guard::alloc(32, guard::END, "gftbl");
		gf_vect_mul_init((uint8_t) t.range(0, 255), tb.p);
		guard::set_readonly(tb);
		guard::Buf s = kern::alloc(len, sp, "src"), d = kern::alloc(len, dp, "dest");
		guard::set_readonly(s);
		f = guard::call([&] { fn((int) len, tb.p, s.p, d.p); });
		PBT_CHECK(!f.faulted, "memory:" + name.substr(0, name.find('@')), "%s(len=%zu): %s", name.c_str(), len, f.describe().c_str());
		PBT_CHECK(guard::canaries_ok(d), "memory:" + name.substr(0, name.find('@')), "%s wrote outside dest", name.c_str());
		c.fpmix(vi); c.fpmix(len); c.fpmix(sp.mode * 2 + dp.mode);
	} else { // raid
		int op = (int) t.range(0, 3);
		const raidv::Var *tab = op == 0 ? raidv::XG : op == 1 ? raidv::PG : op == 2 ? raidv::XC : raidv::PC;
		int n = op == 0 ? 4 : op == 1 ? 5 : 2;
		int vi = (int) t.range(0, n + cpu::N_LEVELS - 1);
		raidv::Var v;
		if (vi < n) { v = tab[vi]; cpu::Config cfg; cpu::level_config(v.level, cfg); if (!cpu::host_can_run(cfg)) throw Skip("host cannot execute variant"); name = v.name; }
		else { v = raidv::DISP[op]; const char *lv = cpu::LEVEL_NAMES[vi - n]; kern::use_level(lv); name = std::string(v.name) + "@" + lv; }
		int vects = (int) t.range(op == 2 ? 2 : op == 0 ? 3 : 4, 12);
		len = pick_len(t, 0, v.lenmult);
		sp = flush_place(t, v.align);
		std::vector<guard::Buf> blk;
		uint64_t seed = t.bits64();
		int npar = op == 0 ? 1 : op == 1 ? 2 : 0;
		for (int i = 0; i < vects; i++) { guard::Buf b = kern::alloc(len, sp, i < vects - npar ? "source block" : "parity block"); kern::fill(b.p, len, seed + i, 0); if (i < vects - npar) guard::set_readonly(b); blk.push_back(b); }
		guard::Buf pa = guard::alloc(sizeof(void *) * vects, guard::END, "pointer array", 8, 0);
		for (int i = 0; i < vects; i++) ((void **) pa.p)[i] = blk[i].p;
		guard::set_readonly(pa);
		f = guard::call([&] { v.fn(vects, (int) len, (void **) pa.p); });
		PBT_CHECK(!f.faulted, std::string("memory:") + v.name, "%s(vects=%d,len=%zu, %s): %s", name.c_str(), vects, len, sp.desc().c_str(), f.describe().c_str());
		for (auto &b : blk) PBT_CHECK(guard::canaries_ok(b), std::string("memory:") + v.name, "%s wrote outside a block", name.c_str());
		c.fpmix(op * 100 + vi); c.fpmix(vects); c.fpmix(len); c.fpmix(sp.mode);
	}
	c.nontrivial = len >= 1 && (len % 64) != 0;
	c.label(name.substr(0, name.find('@')));
	if (c.want_sample) c.sample = fmt("{\"fn\":%s,\"len\":%zu,\"src\":%s}", jstr(name).c_str(), len, jstr(sp.desc()).c_str());
}

// (a) igzip one-shot and auxiliary entry points
static void body_igzip_oneshot(Tape &t, Ctx &c) {
	int what = (int) t.range(0, 5);
	const char *lv = cpu::LEVEL_NAMES[t.pick<uint32_t>({11, 0, 1, 6, 8, 4})];
	kern::use_level(lv);
	guard::Place ipl = t.coin() ? guard::START : guard::END;
	c.fpmix(what); c.fpmix(mix64((uint64_t) (uintptr_t) lv)); c.fpmix(ipl);
	std::string name;
	size_t len = 0;
	if (what == 0) { // isal_deflate_stateless: exact-size input mapping in both placements, level buffer and stream at page ends
		std::vector<dg::Seg> segs;
		dg::gen(t, segs, 80000);
		std::vector<uint8_t> data;
		dg::expand(segs, data);
		len = data.size();
		igz::DefOpts o;
		o.level = (int) t.range(0, 3); o.gzip_flag = (int) t.range(0, 4); o.stateless = true;
		o.lbuf_size = igz::lvl_buf_size(o.level, (int) t.range(0, 4));
		igz::Deflater d(o);
		d.in_place = ipl;
		size_t cap = t.coin() ? len + len / 8 + 1024 : (size_t) t.spread(0, len + 64);
		igz::CallInfo ci = d.call(data.data(), len, cap, t.coin() ? FULL_FLUSH : NO_FLUSH, true);
		name = fmt("isal_deflate_stateless(level %d)", o.level);
		PBT_CHECK(!ci.faulted, "memory:isal_deflate_stateless", "%s len %zu avail_out %zu input %s cpu %s: %s", name.c_str(), len, cap, ipl ? "start-flush" : "end-flush", lv, ci.problem.c_str());
		PBT_CHECK(ci.problem.empty() || ci.rc != COMP_OK, "memory:isal_deflate_stateless", "%s: %s", name.c_str(), ci.problem.c_str());
		if (ci.rc == COMP_OK) { std::string v = igzc::verify_stream(d.out, data, o.gzip_flag, 0); PBT_CHECK(v.empty(), "memory:isal_deflate_stateless:result", "%s: %s", name.c_str(), v.c_str()); }
		c.fpmix(dg::fingerprint(segs)); c.fpmix(o.level * 10 + o.gzip_flag); c.fpmix(cap);
	} else if (what == 1) { // isal_inflate_stateless on valid and damaged streams, tight output
		streams::Built b;
		streams::build(t, b, 40000);
		std::vector<uint8_t> in = b.stream;
		if (t.range(0, 2) == 0 && !in.empty()) { uint64_t h = t.bits64(); size_t off = h % in.size(); if (h >> 63) in.resize(off); else in[off] ^= (uint8_t) (1u << ((h >> 32) % 8)); }
		len = in.size();
		igz::InfOpts io;
		io.crc_flag = b.wrapper == 1 ? ISAL_GZIP : b.wrapper == 2 ? ISAL_ZLIB : ISAL_DEFLATE;
		io.stateless = true;
		igz::Inflater inf(io);
		inf.in_place = ipl;
		size_t cap = t.coin() ? b.data.size() : (size_t) t.spread(0, b.data.size() + 8);
		igz::CallInfo ci = inf.call(in.data(), in.size(), cap);
		name = "isal_inflate_stateless";
		PBT_CHECK(!ci.faulted, "memory:isal_inflate_stateless", "%s: %zu-byte input (%s), avail_out %zu (stream decodes to %zu), cpu %s: %s", name.c_str(), len, ipl ? "start-flush" : "end-flush", cap, b.data.size(), lv, ci.problem.c_str());
		PBT_CHECK(ci.problem.empty(), "memory:isal_inflate_stateless", "%s: %s", name.c_str(), ci.problem.c_str());
		c.fpmix(mix64(len)); for (size_t i = 0; i < in.size() && i < 64; i++) c.fpmix(in[i]); c.fpmix(cap);
	} else if (what == 2) { // isal_update_histogram variants
		int coll = (int) t.range(0, 3);
		len = pick_len(t, 0, 1);
		if (t.range(0, 3) == 0) len = (size_t) t.spread(0, 70000);
		guard::Buf ib = guard::alloc(len, ipl, "histogram input");
		kern::fill(ib.p, len, t.bits64(), (int) t.range(0, 4));
		guard::set_readonly(ib);
		guard::Buf hb = guard::alloc(sizeof(struct isal_huff_histogram), guard::END, "isal_huff_histogram", 8, 0);
		memset(hb.p, 0, sizeof(struct isal_huff_histogram));
		guard::Fault f = guard::call([&] {
			struct isal_huff_histogram *h = (struct isal_huff_histogram *) hb.p;
			if (coll == 0) isal_update_histogram_base(ib.p, (int) len, h); else if (coll == 1) isal_update_histogram_01(ib.p, (int) len, h); else if (coll == 2) isal_update_histogram_04(ib.p, (int) len, h); else isal_update_histogram(ib.p, (int) len, h);
		});
		name = fmt("isal_update_histogram variant %d", coll);
		PBT_CHECK(!f.faulted, "memory:isal_update_histogram", "%s(len %zu, input %s, cpu %s): %s", name.c_str(), len, ipl ? "start-flush" : "end-flush", lv, f.describe().c_str());
		PBT_CHECK(guard::canaries_ok(hb), "memory:isal_update_histogram", "%s wrote outside the histogram", name.c_str());
		c.fpmix(coll); c.fpmix(len);
	} else if (what == 3) { // dictionary entry points: exact-size dictionary mappings
		len = (size_t) (t.coin() ? t.range(1, 300) : t.spread(1, 70000));
		guard::Buf db = guard::alloc(len, ipl, "dictionary");
		kern::fill(db.p, len, t.bits64(), 0);
		guard::set_readonly(db);
		int which = (int) t.range(0, 2);
		int level = (int) t.range(0, 3);
		guard::Fault f;
		int rc = 0;
		if (which == 2) {
			igz::InfOpts io;
			igz::Inflater inf(io);
			f = guard::call([&] { rc = isal_inflate_set_dict(inf.s, db.p, (uint32_t) len); });
			name = "isal_inflate_set_dict";
			PBT_CHECK(guard::canaries_ok(inf.sbuf), "memory:isal_inflate_set_dict", "isal_inflate_set_dict wrote outside inflate_state");
		} else {
			igz::DefOpts o;
			o.level = level; o.lbuf_size = igz::lvl_buf_size(level, 1);
			igz::Deflater d(o);
			if (which == 0) { f = guard::call([&] { rc = isal_deflate_set_dict(d.s, db.p, (uint32_t) len); }); name = "isal_deflate_set_dict"; }
			else {
				guard::Buf ds = guard::alloc(sizeof(struct isal_dict), guard::END, "isal_dict", 8, 0);
				memset(ds.p, 0, sizeof(struct isal_dict));
				f = guard::call([&] { rc = isal_deflate_process_dict(d.s, (struct isal_dict *) ds.p, db.p, (uint32_t) len); if (rc == 0) rc = isal_deflate_reset_dict(d.s, (struct isal_dict *) ds.p); });
				name = "isal_deflate_process_dict+reset_dict";
				PBT_CHECK(f.faulted || guard::canaries_ok(ds), "memory:isal_deflate_process_dict", "wrote outside struct isal_dict");
			}
			PBT_CHECK(f.faulted || (guard::canaries_ok(d.sbuf) && (level == 0 || guard::canaries_ok(d.lbuf))), "memory:" + name, "%s wrote outside the stream / level buffer", name.c_str());
		}
		PBT_CHECK(!f.faulted, "memory:" + name, "%s(dict_len %zu, %s, level %d, cpu %s): %s", name.c_str(), len, ipl ? "start-flush" : "end-flush", level, lv, f.describe().c_str());
		PBT_CHECK(rc == COMP_OK, "memory:" + name, "%s returned %d on a fresh stream", name.c_str(), rc);
		c.fpmix(which * 10 + level); c.fpmix(len);
	} else if (what == 4) { // table builders: histogram and tables in exact-size mappings
		guard::Buf hb = guard::alloc(sizeof(struct isal_huff_histogram), guard::END, "isal_huff_histogram", 8, 0);
		struct isal_huff_histogram *h = (struct isal_huff_histogram *) hb.p;
		memset(h, 0, sizeof *h);
		uint64_t s = t.bits64();
		int kind = (int) t.range(0, 2);
		for (int i = 0; i < 286; i++) h->lit_len_histogram[i] = kind == 0 ? 0 : kind == 1 ? (mix64(s + i) % 5 ? 0 : mix64(s * 3 + i) % 100000) : mix64(s + i) >> 20;
		for (int i = 0; i < 30; i++) h->dist_histogram[i] = kind == 0 ? 0 : mix64(s * 7 + i) >> (kind == 1 ? 50 : 20);
		guard::Buf tb = guard::alloc(sizeof(struct isal_hufftables), guard::END, "isal_hufftables", 8, 0);
		bool subset = t.coin();
		int rc = 0;
		guard::Fault f = guard::call([&] { rc = subset ? isal_create_hufftables_subset((struct isal_hufftables *) tb.p, h) : isal_create_hufftables((struct isal_hufftables *) tb.p, h); });
		name = subset ? "isal_create_hufftables_subset" : "isal_create_hufftables";
		PBT_CHECK(!f.faulted, "memory:" + name, "%s: %s", name.c_str(), f.describe().c_str());
		PBT_CHECK(guard::canaries_ok(tb) && guard::canaries_ok(hb), "memory:" + name, "%s wrote outside its structures", name.c_str());
		c.fpmix(s); c.fpmix(kind * 2 + subset);
		len = 1;
	} else { // stateless FULL_FLUSH sequences (table pointers, stream reused)
		std::vector<dg::Seg> segs;
		dg::gen(t, segs, 30000);
		std::vector<uint8_t> data;
		dg::expand(segs, data);
		len = data.size();
		igz::DefOpts o;
		o.level = (int) t.range(0, 3); o.stateless = true; o.lbuf_size = igz::lvl_buf_size(o.level, 0);
		if (o.level == 1 && t.coin()) o.lbuf_null = true;
		igz::Deflater d(o);
		d.in_place = ipl;
		size_t half = len / 2;
		igz::CallInfo c1 = d.call(data.data(), half, half + half / 8 + 512, FULL_FLUSH, false);
		PBT_CHECK(!c1.faulted && c1.problem.empty(), "memory:isal_deflate_stateless", "first of two stateless calls: %s", c1.problem.c_str());
		d.pending.clear();
		igz::CallInfo c2 = d.call(data.data() + half, len - half, len + 1024, NO_FLUSH, true);
		PBT_CHECK(!c2.faulted && c2.problem.empty(), "memory:isal_deflate_stateless", "second of two stateless calls: %s", c2.problem.c_str());
		name = "isal_deflate_stateless x2";
		c.fpmix(dg::fingerprint(segs)); c.fpmix(o.level * 2 + o.lbuf_null);
	}
	c.nontrivial = len >= 1;
	c.label(name.substr(0, name.find('(')));
	c.label(ipl ? "input=start-flush" : "input=end-flush");
	if (c.want_sample) c.sample = fmt("{\"entry\":%s,\"len\":%zu,\"input_placement\":\"%s\",\"cpu\":\"%s\"}", jstr(name).c_str(), len, ipl ? "start-flush" : "end-flush", lv);
}

// (b) streaming histories: every chunk in its own exact-size mapping, retired as soon as the call returns, remainder relocated;
// the output must still decode although consumed input is gone
static void body_stream_deflate(Tape &t, Ctx &c) {
	std::vector<dg::Seg> segs;
	dg::gen(t, segs, 120000);
	std::vector<uint8_t> data;
	dg::expand(segs, data);
	igz::DefOpts o;
	o.level = (int) t.range(0, 3); o.gzip_flag = (int) t.range(0, 4);
	o.hist_bits = (int) t.pick<uint32_t>({0, 0, 15, 11});
	o.lbuf_size = igz::lvl_buf_size(o.level, (int) t.range(0, 4));
	const char *lv = cpu::LEVEL_NAMES[t.pick<uint32_t>({11, 0, 1, 6, 8, 4, 10})];
	igzc::StreamPlan p = igzc::decode_plan(t, data.size());
	kern::use_level(lv);
	igz::Deflater d(o);
	d.in_place = t.coin() ? guard::START : guard::END;
	c.fpmix(dg::fingerprint(segs)); c.fpmix(o.level * 100 + o.gzip_flag * 10 + d.in_place); c.fpmix(o.hist_bits); c.fpmix(mix64((uint64_t) (uintptr_t) lv)); c.fpmix(p.in.mode * 7 + p.in.param); c.fpmix(p.out.mode * 7 + p.out.param); c.fpmix(p.flush_mode); c.fpmix(p.refill_before_drain);
	std::string ks;
	uint64_t ncalls = 0;
	std::string err = igzc::run_stream(d, data, p, ks, &ncalls);
	if (ks == "inconclusive") throw Skip("inconclusive");
	std::string where = fmt("streaming compression level %d gzip_flag %d hist_bits %d cpu %s, %zu bytes, chunks %s (%s) out %s flush-mode %d refill-before-drain %d", o.level, o.gzip_flag, o.hist_bits, lv, data.size(), p.in.text().c_str(), d.in_place ? "start-flush" : "end-flush", p.out.text().c_str(), p.flush_mode, (int) p.refill_before_drain);
	PBT_CHECK(err.empty(), ks == "fault" ? "memory:isal_deflate" : "memory:isal_deflate:" + ks, "%s: %s", where.c_str(), err.c_str());
	PBT_CHECK(guard::canaries_ok(d.sbuf) && (o.level == 0 || guard::canaries_ok(d.lbuf)), "memory:isal_deflate", "%s: wrote outside the stream struct or level buffer", where.c_str());
	std::string v = igzc::verify_stream(d.out, data, o.gzip_flag, o.hist_bits);
	PBT_CHECK(v.empty(), "memory:isal_deflate:result", "%s: output does not decode to the input although every consumed chunk was only released after its call returned: %s", where.c_str(), v.c_str());
	c.nontrivial = ncalls >= 2;
	c.label(fmt("level=%d", o.level));
	c.label(d.in_place ? "input=start-flush" : "input=end-flush");
	if (c.want_sample) c.sample = fmt("{\"data\":%s,\"level\":%d,\"gzip_flag\":%d,\"cpu\":\"%s\",\"in\":\"%s\",\"out\":\"%s\",\"flush_mode\":%d,\"calls\":%llu}", dg::describe(segs).c_str(), o.level, o.gzip_flag, lv, p.in.text().c_str(), p.out.text().c_str(), p.flush_mode, (unsigned long long) ncalls);
}

static void body_stream_inflate(Tape &t, Ctx &c) {
	streams::Built b;
	streams::build(t, b, 120000);
	int crc_flag = b.wrapper == 1 ? ISAL_GZIP : b.wrapper == 2 ? ISAL_ZLIB : ISAL_DEFLATE;
	const char *lv = cpu::LEVEL_NAMES[t.pick<uint32_t>({11, 0, 1, 6})];
	kern::use_level(lv);
	igzc::Sched in = igzc::decode_sched(t, b.stream.size(), b.stream.size() / 2000 + 1), out = igzc::decode_sched(t, b.data.size(), b.data.size() / 2000 + 1);
	if (in.mode == 0) in.mode = 2;
	igz::InfOpts io;
	io.crc_flag = crc_flag;
	igz::Inflater inf(io);
	inf.in_place = t.coin() ? guard::START : guard::END;
	c.fpmix(mix64(b.stream.size())); for (size_t i = 0; i < 64 && i < b.stream.size(); i++) c.fpmix(b.stream[i]); c.fpmix(crc_flag * 2 + inf.in_place); c.fpmix(mix64((uint64_t) (uintptr_t) lv)); c.fpmix(in.mode * 7 + in.param); c.fpmix(out.mode * 7 + out.param);
	size_t pos = 0;
	int idle = 0;
	std::string where = fmt("streaming decompression of %s (%zu bytes -> %zu), crc_flag %d, cpu %s, chunks %s (%s) out %s", b.src.c_str(), b.stream.size(), b.data.size(), crc_flag, lv, in.text().c_str(), inf.in_place ? "start-flush" : "end-flush", out.text().c_str());
	uint64_t bound = 4096 + 8 * (b.stream.size() / (in.param ? in.param : 1) + b.data.size() / (out.param ? out.param : 1)) + b.stream.size();
	while (!inf.finished()) {
		size_t add = 0;
		if (pos < b.stream.size()) { add = in.next(b.stream.size() - pos); if (add > b.stream.size() - pos) add = b.stream.size() - pos; }
		size_t cap = out.mode == 0 ? b.data.size() + 64 : out.next(b.data.size() + 64);
		igz::CallInfo ci = inf.call(b.stream.data() + pos, add, cap);
		pos += add;
		PBT_CHECK(!ci.faulted, "memory:isal_inflate", "%s: %s", where.c_str(), ci.problem.c_str());
		PBT_CHECK(ci.problem.empty(), "memory:isal_inflate:counters", "%s: %s", where.c_str(), ci.problem.c_str());
		PBT_CHECK(ci.rc == 0, "memory:isal_inflate:result", "%s: rc %d on a valid stream", where.c_str(), ci.rc);
		if (ci.consumed + ci.produced == 0 && add == 0 && pos >= b.stream.size()) { if (++idle > 3) break; } else idle = 0;
		if (inf.calls > bound) throw Skip("inconclusive");
	}
	PBT_CHECK(guard::canaries_ok(inf.sbuf), "memory:isal_inflate", "%s: wrote outside inflate_state", where.c_str());
	PBT_CHECK(inf.finished() && inf.out == b.data, "memory:isal_inflate:result", "%s: result differs although consumed chunks were only released after their call returned (finished %d, %zu bytes)", where.c_str(), (int) inf.finished(), inf.out.size());
	c.nontrivial = inf.calls >= 2;
	c.label(inf.in_place ? "input=start-flush" : "input=end-flush");
	if (c.want_sample) c.sample = fmt("{\"source\":%s,\"stream_bytes\":%zu,\"crc_flag\":%d,\"cpu\":\"%s\",\"in\":\"%s\",\"out\":\"%s\",\"calls\":%llu}", jstr(b.src).c_str(), b.stream.size(), crc_flag, lv, in.text().c_str(), out.text().c_str(), (unsigned long long) inf.calls);
}

int main(int argc, char **argv) {
	refcrc::self_test();
	std::vector<Sub> subs = {
		{"kernels", body_kernels, 32, 10, nullptr, "every CRC/Adler, zero-detect, EC dot/mad/mul/encode/update and RAID gen/check symbol (direct per-ISA kernels and dispatchers under 12 cpu levels) with len in {0,1, every remainder, around 4096, random} and every buffer either ending directly before or starting directly after an inaccessible page; sources, tables and pointer arrays read-only; non-trivial: len not a multiple of 64"},
		{"igzip_oneshot", body_igzip_oneshot, 96, 6, nullptr, "isal_deflate_stateless, isal_inflate_stateless (valid, damaged, tight output), isal_update_histogram variants, dictionary setters, table builders: inputs in exact-size read-only mappings in both placements, structs and level buffers ending at a guard page"},
		{"stream_deflate", body_stream_deflate, 64, 5, nullptr, "streaming compression histories: each input chunk in its own exact-size read-only mapping (start- or end-flush), unmapped as soon as the call returns, unconsumed remainder relocated; output must still decode to the input; non-trivial: >= 2 calls"},
		{"stream_inflate", body_stream_inflate, 128, 5, nullptr, "streaming decompression histories with the same discipline; result must equal the reference bytes"},
	};
	return pbt_main(argc, argv, "C05", subs);
}
