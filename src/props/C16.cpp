// C16 - the dispatcher only selects code the CPU and OS can execute; all choices agree
#include "kern.h"
#include "workload.h"
#include <fstream>
#include <sstream>
#include <map>
#include <set>
#include <unistd.h>
using namespace pbt;

// ---- ISA classes (same names as tools/isa_classify.py)
static const char *JUDGED[] = {"SSE3", "SSSE3", "SSE41", "SSE42", "PCLMUL", "AVX", "AVX2", "AVX512F", "AVX512DQ", "AVX512CD", "AVX512BW", "AVX512VL",
                               "VBMI2", "GFNI", "VAES", "VPCLMULQDQ", "VNNI", "BITALG", "VPOPCNTDQ"};
enum { C_SSE3, C_SSSE3, C_SSE41, C_SSE42, C_PCLMUL, C_AVX, C_AVX2, C_F, C_DQ, C_CD, C_BW, C_VL, C_VBMI2, C_GFNI, C_VAES, C_VPCLMULQDQ, C_VNNI, C_BITALG, C_VPOPCNTDQ, NJ };
struct Req { uint32_t judged = 0; std::string info; std::vector<std::string> deps; std::string unknown; };
static std::map<std::string, Req> g_req;

static void load_req() {
	char exe[512];
	ssize_t n = readlink("/proc/self/exe", exe, sizeof exe - 1);
	exe[n > 0 ? n : 0] = 0;
	std::string p(exe);
	p = p.substr(0, p.rfind('/'));
	p = p.substr(0, p.rfind('/')) + "/gen/isa_req.txt";
	std::ifstream f(p);
	if (!f) throw OracleBug("cannot read " + p);
	std::string line;
	while (std::getline(f, line)) {
		if (line.empty() || line[0] == '#') continue;
		std::istringstream ss(line);
		std::string sym, j, inf, deps, unk;
		ss >> sym >> j >> inf >> deps >> unk;
		Req r;
		auto split = [](const std::string &s) { std::vector<std::string> v; std::string cur; for (char ch : s + ",") { if (ch == ',') { if (!cur.empty() && cur != "-") v.push_back(cur); cur.clear(); } else cur += ch; } return v; };
		for (auto &c : split(j)) { bool ok = false; for (int i = 0; i < NJ; i++) if (c == JUDGED[i]) { r.judged |= 1u << i; ok = true; } if (!ok) throw OracleBug("unknown class " + c); }
		r.info = inf == "-" ? "" : inf;
		r.deps = split(deps);
		r.unknown = unk == "-" ? "" : unk;
		g_req[sym] = r;
	}
	if (g_req.size() < 100) throw OracleBug("ISA requirement table looks empty");
}

// what a configuration offers (CPUID bit AND the OS-enabled state the class needs)
static uint32_t offered(const cpu::Config &c) {
	uint32_t o = 0;
	bool osx = c.l1_ecx & cpu::OSXSAVE;
	bool ymm = osx && (c.xcr0 & 0x6) == 0x6;
	bool zmm = ymm && (c.xcr0 & 0xE0) == 0xE0;
	if (c.l1_ecx & cpu::SSE3) o |= 1u << C_SSE3;
	if (c.l1_ecx & cpu::SSSE3) o |= 1u << C_SSSE3;
	if (c.l1_ecx & cpu::SSE41) o |= 1u << C_SSE41;
	if (c.l1_ecx & cpu::SSE42) o |= 1u << C_SSE42;
	if (c.l1_ecx & cpu::PCLMUL) o |= 1u << C_PCLMUL;
	if ((c.l1_ecx & cpu::AVX) && ymm) o |= 1u << C_AVX;
	if ((c.l7_ebx & cpu::AVX2) && ymm) o |= 1u << C_AVX2;
	if (zmm) {
		if (c.l7_ebx & cpu::AVX512F) o |= 1u << C_F;
		if (c.l7_ebx & cpu::AVX512DQ) o |= 1u << C_DQ;
		if (c.l7_ebx & cpu::AVX512CD) o |= 1u << C_CD;
		if (c.l7_ebx & cpu::AVX512BW) o |= 1u << C_BW;
		if (c.l7_ebx & cpu::AVX512VL) o |= 1u << C_VL;
		if (c.l7_ecx & cpu::VBMI2) o |= 1u << C_VBMI2;
		if (c.l7_ecx & cpu::VNNI) o |= 1u << C_VNNI;
		if (c.l7_ecx & cpu::BITALG) o |= 1u << C_BITALG;
		if (c.l7_ecx & cpu::VPOPCNTDQ) o |= 1u << C_VPOPCNTDQ;
	}
	if (c.l7_ecx & cpu::GFNI) o |= 1u << C_GFNI;       // the encoding's own class (SSE/AVX/AVX512) is required separately
	if ((c.l7_ecx & cpu::VAES) && ymm) o |= 1u << C_VAES;
	if ((c.l7_ecx & cpu::VPCLMULQDQ) && ymm) o |= 1u << C_VPCLMULQDQ;
	return o;
}

// strong dependency closure of the enumerated space (DESIGN.md, C16)
static bool closed(const cpu::Config &c) {
	using namespace cpu;
	uint32_t e1 = c.l1_ecx, b7 = c.l7_ebx, c7 = c.l7_ecx, x = c.xcr0;
	if ((e1 & SSE42) && !(e1 & SSE41)) return false;
	if ((e1 & AVX) && !(e1 & SSE42)) return false;
	if ((b7 & AVX2) && !(e1 & AVX)) return false;
	if ((b7 & AVX512F) && !(b7 & AVX2)) return false;
	if ((b7 & (AVX512DQ | AVX512CD | AVX512BW | AVX512VL)) && !(b7 & AVX512F)) return false;
	if ((c7 & (VNNI | VPOPCNTDQ)) && !(b7 & AVX512F)) return false;
	if ((c7 & (VBMI2 | BITALG)) && !(b7 & AVX512BW)) return false;
	if ((c7 & (VAES | VPCLMULQDQ)) && !(e1 & AVX)) return false;
	if ((x & 0x4) && !(x & 0x2)) return false;
	uint32_t hi = x & 0xE0;
	if (hi != 0 && hi != 0xE0) return false;
	if (hi && !(x & 0x4)) return false;
	if (x && !(e1 & OSXSAVE)) return false;
	return true;
}

// tape {bits1 (5), bits7b (6), bits7c (7), xcr0 bits (5), free bits (3: SSE3, SSSE3, avoton; 0 in the enforced sweep)}
static cpu::Config decode_cfg(uint32_t a, uint32_t b, uint32_t cc, uint32_t x, uint32_t fr, bool enforced) {
	using namespace cpu;
	static const uint32_t B1[] = {PCLMUL, SSE41, SSE42, OSXSAVE, AVX};
	static const uint32_t B7B[] = {AVX2, AVX512F, AVX512DQ, AVX512CD, AVX512BW, AVX512VL};
	static const uint32_t B7C[] = {VBMI2, GFNI, VAES, VPCLMULQDQ, VNNI, BITALG, VPOPCNTDQ};
	static const uint32_t BX[] = {0x2, 0x4, 0x20, 0x40, 0x80};
	Config c;
	c.l1_eax = 0x000306A9;
	c.l1_ecx = c.l7_ebx = c.l7_ecx = c.xcr0 = 0;
	for (int i = 0; i < 5; i++) if (a & (1u << i)) c.l1_ecx |= B1[i];
	for (int i = 0; i < 6; i++) if (b & (1u << i)) c.l7_ebx |= B7B[i];
	for (int i = 0; i < 7; i++) if (cc & (1u << i)) c.l7_ecx |= B7C[i];
	for (int i = 0; i < 5; i++) if (x & (1u << i)) c.xcr0 |= BX[i];
	if (c.xcr0) c.xcr0 |= 1; // x87 state is always enabled when XCR0 is in use
	if (enforced) {
		// bits the resolvers read but the property does not list follow the architectural chain SSE3 <- SSSE3 <- SSE4.1:
		// implied by SSE4.1; below SSE4.1 the two real pre-Penryn generations (SSE3 only, SSE3+SSSE3) are enumerated as well
		if (c.l1_ecx & SSE41) c.l1_ecx |= SSE3 | SSSE3;
		else { if (fr & 1) c.l1_ecx |= SSE3; if ((fr & 3) == 3) c.l1_ecx |= SSSE3; }
	} else {
		if (fr & 1) c.l1_ecx |= SSE3;
		if (fr & 2) c.l1_ecx |= SSSE3;
		if (fr & 4) c.l1_eax = 0x000406D8; // Avoton signature
	}
	if (c.l1_ecx & (AVX | SSE42)) c.l1_ecx |= POPCNT;
	return c;
}

static std::string cfg_text(const cpu::Config &c) {
	return fmt("cpuid1.eax=%08x cpuid1.ecx=%08x cpuid7.ebx=%08x cpuid7.ecx=%08x xcr0=%02x", c.l1_eax, c.l1_ecx, c.l7_ebx, c.l7_ecx, c.xcr0);
}
static std::string missing_text(uint32_t m) {
	std::string s;
	for (int i = 0; i < NJ; i++) if (m & (1u << i)) s += std::string(s.empty() ? "" : "+") + JUDGED[i];
	return s;
}

// resolve all 42 entry points under c with the real resolver code; returns entry -> selected symbol
static void resolve_all(const cpu::Config &c, std::vector<std::string> &sel) {
	cpu::Tab *t = cpu::verif_cpu_tab_ptr();
	cpu::apply(c);
	t->xgetbv_without_osxsave = 0;
	const auto &sl = cpu::slots();
	sel.resize(sl.size());
	static std::map<void *, std::string> cache;
	for (size_t i = 0; i < sl.size(); i++) {
		// the resolver runs inside the first call of the entry point: it must leave the caller's argument registers alone and may consult nothing but
		// CPUID / XGETBV - it is run with two opposite register images and must pick the same implementation and hand both images back intact
		static const uint64_t IMG[2][6] = {{0, 0, 0, 0, 0, 0}, {~0ull, ~0ull, ~0ull, ~0ull, ~0ull, ~0ull}};
		void *picked[2] = {nullptr, nullptr};
		for (int im = 0; im < 2; im++) {
			uint64_t out[6] = {1, 2, 3, 4, 5, 6};
			*sl[i].slot = sl[i].mbinit;
			guard::Fault f = guard::call([&] { cpu::verif_call_with_regs(sl[i].dispatch_init, IMG[im], out); });
			if (f.faulted) throw Violation(std::string("dispatch:") + sl[i].name + ":fault", fmt("resolver of %s faulted under %s: %s", sl[i].name, cfg_text(c).c_str(), f.describe().c_str()));
			static const char *RN[] = {"rdi", "rsi", "rdx", "rcx", "r8", "r9"};
			for (int r = 0; r < 6; r++)
				if (out[r] != IMG[im][r]) throw Violation(std::string("dispatch:") + sl[i].name + ":clobbers-argument-register", fmt("the resolver of %s returns with %s = %llx (was %llx): argument %d of the first call of this entry point is lost (%s)", sl[i].name, RN[r], (unsigned long long) out[r], (unsigned long long) IMG[im][r], r + 1, cfg_text(c).c_str()));
			picked[im] = *sl[i].slot;
		}
		if (picked[0] != picked[1]) throw Violation(std::string("dispatch:") + sl[i].name + ":depends-on-arguments", fmt("the resolver of %s picks %s when the argument registers hold 0 and %s when they hold all ones (%s): the choice depends on the first call's arguments, not only on the processor", sl[i].name, guard::symbolize(picked[0]).c_str(), guard::symbolize(picked[1]).c_str(), cfg_text(c).c_str()));
		void *p = *sl[i].slot;
		auto it = cache.find(p);
		if (it == cache.end()) it = cache.insert({p, guard::symbolize(p)}).first;
		sel[i] = it->second;
	}
}

static uint32_t total_req(const std::string &sym, const std::map<std::string, std::string> &entry_sel, std::string *info, int depth = 0) {
	auto it = g_req.find(sym);
	if (it == g_req.end()) throw OracleBug("no ISA requirement record for selected symbol " + sym);
	uint32_t r = it->second.judged;
	if (info && !it->second.info.empty()) *info += it->second.info + ",";
	if (depth < 6)
		for (auto &d : it->second.deps) {
			auto e = entry_sel.find(d);
			if (e != entry_sel.end()) r |= total_req(e->second, entry_sel, info, depth + 1);
		}
	return r;
}

static std::set<uint64_t> g_tuples_done;
static uint64_t g_base_digest;
static bool g_have_base;

static void check_config(const cpu::Config &c, bool enforced, Ctx &ctx) {
	std::vector<std::string> sel;
	resolve_all(c, sel);
	const auto &sl = cpu::slots();
	cpu::Tab *t = cpu::verif_cpu_tab_ptr();
	std::map<std::string, std::string> es;
	for (size_t i = 0; i < sl.size(); i++) es[sl[i].name] = sel[i];
	uint32_t off = offered(c);
	uint64_t th = 0;
	bool any_opt = (c.l1_ecx & (cpu::SSE41 | cpu::SSE42)) != 0;
	for (size_t i = 0; i < sl.size(); i++) {
		th = mix64(th ^ mix64((uint64_t) (uintptr_t) *sl[i].slot + i));
		std::string info;
		uint32_t need = total_req(sel[i], es, &info);
		uint32_t miss = need & ~off;
		if (miss) {
			std::string key = std::string("dispatch:") + sl[i].name + ":" + sel[i] + ":" + missing_text(miss);
			if (enforced) throw Violation(key, fmt("%s resolves to %s which needs %s, not available under %s", sl[i].name, sel[i].c_str(), missing_text(miss).c_str(), cfg_text(c).c_str()));
			ctx.label("informational(weak-closure): " + key);
		}
		// instructions no resolver tests for (LZCNT, BMI2: on a processor without them LZCNT silently executes as BSR, BMI2 faults) arrived together
		// with AVX2 in every x86-64 line; a kernel that contains them may therefore only be selected where AVX2 is reported
		if (enforced && !(c.l7_ebx & cpu::AVX2) && (info.find("LZCNT") != std::string::npos || info.find("BMI2") != std::string::npos))
			throw Violation(std::string("dispatch:") + sl[i].name + ":" + sel[i] + ":haswell-new-instructions", fmt("%s resolves to %s which contains %s instructions, but the configuration does not even report AVX2 (%s)", sl[i].name, sel[i].c_str(), info.c_str(), cfg_text(c).c_str()));
		if (enforced && !any_opt) {
			// none of the optimised sets is enabled -> portable code everywhere
			bool portable = sel[i].size() > 5 && (sel[i].rfind("_base") == sel[i].size() - 5 || g_req[sel[i]].judged == 0);
			PBT_CHECK(portable && need == 0, std::string("dispatch:") + sl[i].name + ":not-portable", "%s resolves to %s (needs %s) although no SSE4.x/AVX set is enabled: %s", sl[i].name, sel[i].c_str(), missing_text(need).c_str(), cfg_text(c).c_str());
		}
	}
	if (t->xgetbv_without_osxsave)
		PBT_CHECK(!enforced, "dispatch:xgetbv-without-osxsave", "a resolver executed XGETBV although CPUID.1:ECX.OSXSAVE is clear (%u times) under %s", t->xgetbv_without_osxsave, cfg_text(c).c_str());
	ctx.fpmix(c.l1_ecx); ctx.fpmix(c.l7_ebx); ctx.fpmix(c.l7_ecx); ctx.fpmix(c.xcr0); ctx.fpmix(c.l1_eax);
	// all choices agree: run the cross-unit workload once per distinct 42-tuple the physical host can execute
	if (enforced && !g_tuples_done.count(th)) {
		g_tuples_done.insert(th);
		if (cpu::host_can_run(c)) {
			cpu::rearm_all(); // run through the public entry points (mbinit -> resolver -> kernel)
			workload::Digest dg;
			std::string err;
			guard::Fault f = guard::call([&] { err = workload::run(7, dg, !opt.thorough); });
			PBT_CHECK(!f.faulted, "dispatch:workload-fault", "workload faulted under %s: %s", cfg_text(c).c_str(), f.describe().c_str());
			PBT_CHECK(err.empty(), "dispatch:workload:" + err.substr(0, err.find(' ')), "functional workload fails under %s: %s", cfg_text(c).c_str(), err.c_str());
			PBT_CHECK(!g_have_base || dg.h == g_base_digest, "dispatch:results-differ", "observable results under %s differ from the portable (base) configuration", cfg_text(c).c_str());
			ctx.label("distinct-tuple-executed");
		} else ctx.label("distinct-tuple-not-executable-on-host");
	}
	std::string tuple_name = es["ec_encode_data"] + "|" + es["crc32_gzip_refl"] + "|" + es["isal_deflate_body"] + "|" + es["decode_huffman_code_block_stateless"];
	cpu::Config h = cpu::host_config();
	ctx.nontrivial = any_opt && !(c.l1_ecx == h.l1_ecx && c.l7_ebx == h.l7_ebx);
	if (ctx.want_sample) ctx.sample = fmt("{\"config\":%s,\"ec_encode_data|crc32_gzip_refl|isal_deflate_body|decode_block\":%s}", jstr(cfg_text(c)).c_str(), jstr(tuple_name).c_str());
}

// pre-SSE4.1 generations: only meaningful when SSE4.1 (bit 1 of a) and PCLMULQDQ (bit 0; no processor has it without SSE4.1) are clear
static bool pre_penryn_ok(uint32_t a, uint32_t fr) { return fr == 0 || ((fr == 1 || fr == 3) && !(a & 3)); }
static void body_enforced(Tape &t, Ctx &c) {
	uint32_t a = (uint32_t) t.range(0, 31), b = (uint32_t) t.range(0, 63), cc = (uint32_t) t.range(0, 127), x = (uint32_t) t.range(0, 31), fr = (uint32_t) t.range(0, 3);
	if (!pre_penryn_ok(a, fr)) throw Skip("not dependency-closed");
	cpu::Config cfg = decode_cfg(a, b, cc, x, fr, true);
	if (!closed(cfg)) throw Skip("not dependency-closed");
	check_config(cfg, true, c);
	if (fr) c.label(fr == 1 ? "pre-penryn:SSE3-only" : "pre-penryn:SSE3+SSSE3");
}
static void sweep_enforced(SweepSink &s) {
	for (uint32_t a = 0; a < 32; a++)
		for (uint32_t x = 0; x < 32; x++)
			for (uint32_t b = 0; b < 64; b++)
				for (uint32_t cc = 0; cc < 128; cc++) {
					if (!closed(decode_cfg(a, b, cc, x, 0, true))) continue;
					if (!s.emit({a, b, cc, x})) return;
					for (uint32_t fr : {1u, 3u})
						if (pre_penryn_ok(a, fr) && !s.emit({a, b, cc, x, fr})) return;
				}
}
static void body_info(Tape &t, Ctx &c) {
	uint32_t a = (uint32_t) t.range(0, 31), b = (uint32_t) t.range(0, 63), cc = (uint32_t) t.range(0, 127), x = (uint32_t) t.range(0, 31), fr = (uint32_t) t.range(0, 7);
	cpu::Config cfg = decode_cfg(a, b, cc, x, fr, false);
	// same closure over the listed bits, but SSE3 / SSSE3 / the Avoton signature (read by the resolvers, not listed by the property) are free
	if (!closed(cfg)) throw Skip("not dependency-closed");
	check_config(cfg, false, c);
}
static void sweep_info(SweepSink &s) {
	for (uint32_t a = 0; a < 32; a++)
		for (uint32_t x = 0; x < 32; x++)
			for (uint32_t b = 0; b < 64; b++)
				for (uint32_t cc = 0; cc < 128; cc++) {
					if (!closed(decode_cfg(a, b, cc, x, 0, true))) continue;
					for (uint32_t fr = 0; fr < 8; fr++)
						if (!s.emit({a, b, cc, x, fr})) return;
				}
}

// clear every bit whose prerequisite is missing until the assignment is dependency-closed (construction, not rejection)
static void repair(uint32_t &a, uint32_t &b, uint32_t &cc, uint32_t &x) {
	for (int it = 0; it < 8; it++) {
		cpu::Config c = decode_cfg(a, b, cc, x, 0, true);
		using namespace cpu;
		if ((c.l1_ecx & SSE42) && !(c.l1_ecx & SSE41)) a &= ~4u;
		if ((c.l1_ecx & AVX) && !(c.l1_ecx & SSE42)) a &= ~16u;
		if ((c.l7_ebx & AVX2) && !(c.l1_ecx & AVX)) b &= ~1u;
		if ((c.l7_ebx & AVX512F) && !(c.l7_ebx & AVX2)) b &= ~2u;
		if (!(c.l7_ebx & AVX512F)) { b &= ~(4u | 8u | 16u | 32u); cc &= ~(16u | 64u); }
		if (!(c.l7_ebx & AVX512BW)) cc &= ~(1u | 32u);
		if (!(c.l1_ecx & AVX)) cc &= ~(4u | 8u);
		if (!(c.l1_ecx & OSXSAVE)) x = 0;
		if ((x & 2) && !(x & 1)) x &= ~2u;
		if ((x & 28) != 0 && (x & 28) != 28) x &= ~28u;
		if ((x & 28) && !(x & 2)) x &= ~28u;
	}
}

// random differential: a generated (repaired-to-closed) configuration that the host can execute, a generated workload seed,
// results must equal those of the portable configuration for the same seed
static void body_workload(Tape &t, Ctx &c) {
	uint32_t a, b, cc, x;
	if (t.coin()) {
		cpu::Config cfg;
		const char *lv = cpu::LEVEL_NAMES[t.range(0, cpu::N_LEVELS - 1)];
		cpu::level_config(lv, cfg);
		if (!cpu::host_can_run(cfg)) throw Skip("host cannot execute level");
		uint64_t seed = t.range(0, 1000000);
		cpu::Config base;
		cpu::level_config("base", base);
		cpu::apply(base);
		workload::Digest d0, d1;
		std::string e0 = workload::run(seed, d0, true);
		if (!e0.empty()) throw Violation("dispatch:workload-base", "workload fails under the portable configuration: " + e0);
		cpu::apply(cfg);
		std::string e1;
		guard::Fault f = guard::call([&] { e1 = workload::run(seed, d1, true); });
		PBT_CHECK(!f.faulted, "dispatch:workload-fault", "workload faulted at level %s: %s", lv, f.describe().c_str());
		PBT_CHECK(e1.empty(), "dispatch:workload:" + e1.substr(0, e1.find(' ')), "workload fails at level %s seed %llu: %s", lv, (unsigned long long) seed, e1.c_str());
		PBT_CHECK(d0.h == d1.h, "dispatch:results-differ", "observable results at level %s differ from the portable configuration (seed %llu)", lv, (unsigned long long) seed);
		c.fpmix(mix64((uint64_t) (uintptr_t) lv)); c.fpmix(seed);
		c.nontrivial = strcmp(lv, "base") != 0;
		c.label(std::string("level=") + lv);
		if (c.want_sample) c.sample = fmt("{\"level\":\"%s\",\"workload_seed\":%llu}", lv, (unsigned long long) seed);
		return;
	}
	a = (uint32_t) t.range(0, 31); b = (uint32_t) t.range(0, 63); cc = (uint32_t) t.range(0, 127); x = (uint32_t) t.range(0, 31);
	// bias towards richer configurations: OR two draws
	a |= (uint32_t) t.range(0, 31); b |= (uint32_t) t.range(0, 63); cc |= (uint32_t) t.range(0, 127); x |= (uint32_t) t.range(0, 31);
	repair(a, b, cc, x);
	cpu::Config cfg = decode_cfg(a, b, cc, x, 0, true);
	if (!closed(cfg)) throw OracleBug("repair() left a non-closed configuration");
	if (!cpu::host_can_run(cfg)) throw Skip("host cannot execute configuration");
	uint64_t seed = t.range(0, 1000000);
	cpu::Config base;
	cpu::level_config("base", base);
	cpu::apply(base);
	workload::Digest d0, d1;
	std::string e0 = workload::run(seed, d0, true);
	if (!e0.empty()) throw Violation("dispatch:workload-base", "workload fails under the portable configuration: " + e0);
	cpu::apply(cfg);
	std::string e1;
	guard::Fault f = guard::call([&] { e1 = workload::run(seed, d1, true); });
	PBT_CHECK(!f.faulted, "dispatch:workload-fault", "workload faulted under %s: %s", cfg_text(cfg).c_str(), f.describe().c_str());
	PBT_CHECK(e1.empty(), "dispatch:workload:" + e1.substr(0, e1.find(' ')), "workload fails under %s seed %llu: %s", cfg_text(cfg).c_str(), (unsigned long long) seed, e1.c_str());
	PBT_CHECK(d0.h == d1.h, "dispatch:results-differ", "observable results under %s differ from the portable configuration (seed %llu)", cfg_text(cfg).c_str(), (unsigned long long) seed);
	c.fpmix(a); c.fpmix(b); c.fpmix(cc); c.fpmix(x); c.fpmix(seed);
	c.nontrivial = (cfg.l1_ecx & cpu::SSE42) != 0;
	c.label("generated-closed-config");
	if (c.want_sample) c.sample = fmt("{\"config\":%s,\"workload_seed\":%llu}", jstr(cfg_text(cfg)).c_str(), (unsigned long long) seed);
}

int main(int argc, char **argv) {
	refcrc::self_test();
	load_req();
	// base digest (portable configuration)
	{
		cpu::Config b;
		cpu::level_config("base", b);
		cpu::apply(b);
		workload::Digest dg;
		bool light = true;
		for (int i = 1; i < argc; i++) if (!strcmp(argv[i], "thorough")) light = false;
		std::string err = workload::run(7, dg, light);
		if (!err.empty()) { fprintf(stderr, "workload fails under the portable configuration: %s\n", err.c_str()); }
		else { g_base_digest = dg.h; g_have_base = true; }
	}
	std::vector<Sub> subs = {
		{"enforced", body_enforced, 5, 0, sweep_enforced,
		 "all dependency-closed assignments of the 23 examined CPUID/XCR0 bits (plus, below SSE4.1, the SSE3-only and SSE3+SSSE3 generations) x all dispatched entry points, real resolver code with CPUID/XGETBV intercepted; oracle: ISA classes of the "
		 "selected symbol and its callees (disassembly, recursive descent) subset of classes offered; portable fallback; cross-unit workload per distinct tuple vs the base tuple; "
		 "non-trivial: configuration differs from base and host"},
		{"informational", body_info, 5, 0, sweep_info, "same sweep with SSE3/SSSE3/Avoton signature freed (8x): disagreements are recorded as labels, never reported as violations"},
		{"workload", body_workload, 12, 1, nullptr, "generated closed configuration (named level or repaired random bits) x generated workload seed: all observable results equal those of the portable configuration"},
	};
	return pbt_main(argc, argv, "C16", subs);
}
