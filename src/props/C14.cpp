#include <memory>
// C14 - flush points are byte-aligned, complete and (for full flush) independent
#include "igzcheck.h"
#include "datagen.h"
using namespace pbt;

struct FlushPt { size_t out_off, in_off; int kind; };

static std::string check_flush_point(const std::vector<uint8_t> &out, size_t hdr, const std::vector<uint8_t> &fed, int hist_bits, const uint8_t *dict = nullptr, size_t dict_len = 0) {
	if (out.size() < hdr + 4) return fmt("only %zu bytes produced at a completed flush", out.size());
	const uint8_t *e = out.data() + out.size() - 4;
	if (!(e[0] == 0 && e[1] == 0 && e[2] == 0xFF && e[3] == 0xFF)) return fmt("output so far does not end with the empty stored block 00 00 FF FF (ends %02x %02x %02x %02x)", e[0], e[1], e[2], e[3]);
	refinf::Options ro;
	ro.max_out = fed.size() + 64;
	ro.dict = dict; ro.dict_len = dict_len;
	refinf::Result r = refinf::inflate(out.data() + hdr, out.size() - hdr, ro);
	if (r.st != refinf::TRUNCATED || !r.at_block_boundary) return fmt("reference decoder on the output so far: %s at bit %llu (expected to run out of input exactly at a block boundary)", refinf::status_name(r.st), (unsigned long long) r.err_bit);
	if (r.last_block_end_bit != (uint64_t) (out.size() - hdr) * 8) return fmt("last block ends at bit %llu, output so far has %zu bits: not byte aligned / trailing bits", (unsigned long long) r.last_block_end_bit, (out.size() - hdr) * 8);
	for (auto &b : r.blocks) if (b.bfinal) return "a BFINAL block was emitted before end_of_stream";
	if (r.out != fed) return fmt("output so far decodes to %zu bytes, %zu bytes were fed (first difference at %zu)", r.out.size(), fed.size(), (size_t) (std::mismatch(r.out.begin(), r.out.begin() + std::min(r.out.size(), fed.size()), fed.begin()).first - r.out.begin()));
	// zlib agrees (Z_SYNC_FLUSH semantics: everything so far is decodable)
	igz::ZOut z = igz::zlib_inflate(out.data() + hdr, out.size() - hdr, -(hist_bits ? std::max(9, hist_bits) : 15), fed.size() + 64, dict, dict_len, Z_SYNC_FLUSH);
	if (z.rc != Z_OK || z.out != fed || z.consumed != out.size() - hdr) return fmt("zlib with Z_SYNC_FLUSH: rc %d, %zu bytes out of %zu fed, consumed %zu of %zu", z.rc, z.out.size(), fed.size(), z.consumed, out.size() - hdr);
	return "";
}

static void body(Tape &t, Ctx &c) {
	int nsteps = (int) t.range(1, 5);
	igz::DefOpts o;
	o.level = (int) t.range(0, 3);
	o.gzip_flag = (int) t.range(0, 4);
	o.hist_bits = (int) t.pick<uint32_t>({0, 0, 15, 12, 9, 10});
	o.lbuf_size = igz::lvl_buf_size(o.level, (int) t.range(0, 4));
	const char *lv = cpu::LEVEL_NAMES[t.pick<uint32_t>({11, 0, 1, 6, 8, 4})];
	std::vector<dg::Seg> segs;
	std::vector<int> kinds;
	bool far = t.range(0, 7) == 0;
	for (int i = 0; i < nsteps; i++) {
		dg::Seg s{(int) t.range(0, 8), (size_t) (t.coin() ? t.range(0, 400) : t.spread(1, 9000)), t.bits64(), (size_t) t.range(1, 300), 0}; // a zero-length step = a flush request that brings no input
		// one case in eight: a long first segment so that a flush point lies beyond 64 KiB of input (history offsets no longer fit 16 bits), with
		// content that repeats 32 KiB later
		if (i == 0 && far) { s.kind = 5; s.period = 32768; s.len = 65536 + (size_t) (mix64(s.seed) % 70000); }
		if (i > 0 && far && s.len > 0 && s.len < 300) s.len += 300;
		if (i > 0 && t.range(0, 2) != 0) { // repeat content from before the previous flush point so a stale hash entry would give a cross-flush match
			s.kind = 6;
			size_t prev = 0;
			for (auto &q : segs) prev += q.len;
			s.back = (size_t) t.range(1, prev < 32768 ? prev : 32768);
			if (far && t.coin()) s.back = 32768 - (size_t) t.range(0, 2);
			if (s.len < 64) s.len += 64;
		}
		segs.push_back(s);
		kinds.push_back((int) t.pick<uint32_t>({SYNC_FLUSH, FULL_FLUSH, FULL_FLUSH, NO_FLUSH}));
	}
	size_t total = 0;
	for (auto &s : segs) total += s.len;
	igzc::Sched in = igzc::decode_sched(t, total, total / 600 + 1), out = igzc::decode_sched(t, total, total / 600 + 1);
	if (t.range(0, 3) == 0) { out.mode = 1; out.param = (uint32_t) t.pick<uint32_t>({1, 2, 3, 5, 7}); if (total / out.param > 2500) out.param = (uint32_t) (total / 2500 + 1); } // < 8-byte buffers force the staging path
	// an "impatient" caller moves on to the next input segment as soon as its input was taken, even if the output buffer filled up in the middle of the
	// flush (marker partly staged): nothing is claimed for that flush point, but the next completed flush must then cover everything fed so far
	bool impatient = t.range(0, 2) == 0;
	std::vector<uint8_t> all;
	dg::expand(segs, all);
	c.fpmix(dg::fingerprint(segs)); for (int k : kinds) c.fpmix(k);
	c.fpmix(o.level * 100 + o.gzip_flag * 10); c.fpmix(o.hist_bits); c.fpmix(mix64((uint64_t) (uintptr_t) lv)); c.fpmix(in.mode * 7 + in.param); c.fpmix(out.mode * 7 + out.param); c.fpmix(impatient); c.fpmix(far);
	kern::use_level(lv);
	// one case in four: a preset dictionary (raw deflate) whose content the data repeats - a full flush must cut the stream off from it as well
	int dmode = (int) t.pick<uint32_t>({0, 0, 0, 1, 2, 0, 0, 2});
	std::vector<uint8_t> dict;
	if (dmode && all.size() >= 200) { o.gzip_flag = 0; size_t dl = std::min<size_t>(all.size() / 2, (size_t) t.range(100, 6000)); dict.assign(all.begin(), all.begin() + dl); } else dmode = 0;
	c.fpmix(dmode); c.fpmix(dict.size());
	igz::Deflater d(o);
	if (dmode) {
		guard::Buf db = guard::alloc_copy(dict.data(), dict.size(), guard::END, "dictionary");
		guard::set_readonly(db);
		int drc = 0;
		if (dmode == 1) drc = isal_deflate_set_dict(d.s, db.p, (uint32_t) dict.size());
		else {
			static struct isal_dict ds;
			memset(&ds, 0, sizeof ds);
			drc = isal_deflate_process_dict(d.s, &ds, db.p, (uint32_t) dict.size());
			if (drc == COMP_OK) drc = isal_deflate_reset_dict(d.s, &ds);
		}
		PBT_CHECK(drc == COMP_OK, "deflate:flush:dict", "dictionary call (mode %d) returned %d", dmode, drc);
		guard::retire(db);
	}
	const uint8_t *dp = dict.empty() ? nullptr : dict.data();
	size_t hdr, trl;
	igz::wrapper_sizes(o.gzip_flag, hdr, trl);
	std::vector<FlushPt> pts;
	std::string where = fmt("level %d gzip_flag %d hist_bits %d cpu %s, %d steps (%zu bytes), in %s out %s", o.level, o.gzip_flag, o.hist_bits, lv, nsteps, total, in.text().c_str(), out.text().c_str());
	size_t pos = 0;
	uint64_t bound = 4096 + 16 * (total / (in.param ? in.param : 1) + total / (out.param ? out.param : 1)) + total;
	bool after_flush_repeat = false;
	int noprog = 0;
	for (int i = 0; i < nsteps; i++) {
		size_t end = pos + segs[i].len;
		bool last_step = i == nsteps - 1;
		int drain_calls = 0;
		while (true) {
			size_t add = 0;
			if (pos < end && d.pending.empty()) { add = in.mode == 0 ? end - pos : in.next(end - pos); if (add > end - pos) add = end - pos; }
			bool seg_done = pos + add >= end;
			int flush = seg_done ? kinds[i] : NO_FLUSH;
			bool eos = last_step && seg_done;
			size_t cap = out.mode == 0 ? total + total / 8 + 1024 : out.next(total + 1024);
			// buffers shorter than 8 bytes cannot take the flush marker; the property only requires that more space then makes progress
			if (noprog >= 2) cap = std::max<size_t>(cap, 64);
			if (seg_done && add == 0 && ++drain_calls > 48) cap = std::max<size_t>(cap, 512); // a caller that keeps asking for a flush eventually offers real space
			igz::CallInfo ci = d.call(all.data() + pos, add, cap, flush, eos);
			pos += add;
			if (ci.consumed == 0 && ci.produced == 0 && add == 0 && !d.finished()) {
				noprog++;
				PBT_CHECK(!(cap >= 64 && noprog >= 4 && (flush != NO_FLUSH || eos || !d.pending.empty())), "deflate:flush:stall", "%s: no progress in repeated calls with %zu bytes of output space (flush %d, eos %d, state %d)", where.c_str(), cap, flush, (int) eos, (int) d.s->internal_state.state);
			} else noprog = 0;
			PBT_CHECK(!ci.faulted, "deflate:flush:fault", "%s: %s", where.c_str(), ci.problem.c_str());
			PBT_CHECK(ci.problem.empty(), "deflate:flush:counters", "%s: %s", where.c_str(), ci.problem.c_str());
			PBT_CHECK(ci.rc == COMP_OK, "deflate:flush:rc", "%s: isal_deflate returned %d", where.c_str(), ci.rc);
			if (d.calls > bound) throw Skip(fmt("inconclusive: call bound (flush %d eos %d state %d pending %zu cap %zu out.mode %d in.mode %d)", flush, (int) eos, (int) d.s->internal_state.state, d.pending.size(), cap, out.mode, in.mode));
			if (eos) { if (d.finished()) break; continue; }
			if (seg_done && d.pending.empty() && ci.produced < cap) {
				// the property's precondition: the call returned with all input consumed and output space left
				if (flush == SYNC_FLUSH || flush == FULL_FLUSH) {
					PBT_CHECK(d.s->internal_state.state == ZSTATE_NEW_HDR, "deflate:flush:state", "%s: after a completed %s flush of step %d the state is %d, not ZSTATE_NEW_HDR", where.c_str(), flush == SYNC_FLUSH ? "sync" : "full", i, (int) d.s->internal_state.state);
					std::vector<uint8_t> fed(all.begin(), all.begin() + pos);
					std::string e = check_flush_point(d.out, hdr, fed, o.hist_bits, dp, dict.size());
					PBT_CHECK(e.empty(), "deflate:flush:point", "%s: %s flush after step %d (%zu bytes fed, %zu produced): %s", where.c_str(), flush == SYNC_FLUSH ? "sync" : "full", i, pos, d.out.size(), e.c_str());
					pts.push_back({d.out.size(), pos, flush});
					if (i + 1 < nsteps && segs[i + 1].kind == 6 && segs[i + 1].len >= 64) after_flush_repeat = true;
				}
				break;
			}
			if (seg_done && d.pending.empty() && flush == NO_FLUSH && !last_step) break;
			// flush finished exactly when the output chunk filled up: the property's precondition (space left) is not met, nothing is claimed;
			// move on instead of requesting yet another flush cycle
			if (seg_done && d.pending.empty() && d.s->internal_state.state == ZSTATE_NEW_HDR && ci.produced == cap) { c.label("flush-completed-with-full-buffer(not-judged)"); break; }
			if (impatient && !last_step && seg_done && d.pending.empty() && ci.produced == cap && cap > 0) { c.label("next-segment-fed-while-flush-output-pending"); break; }
		}
	}
	refinf::Result ri;
	std::string v = igzc::verify_stream(d.out, all, o.gzip_flag, o.hist_bits, &ri, dp, dict.size());
	PBT_CHECK(v.empty(), "deflate:flush:decode", "%s: %s", where.c_str(), v.c_str());
	// after a completed full flush nothing refers to data before the flush point, and the rest decodes on its own
	for (auto &p : pts) {
		if (p.kind != FULL_FLUSH) continue;
		for (auto &b : ri.blocks)
			if (b.out_start >= p.in_off && b.matches)
				PBT_CHECK(b.min_src >= (int64_t) p.in_off, "deflate:flush:full-independence", "%s: a block after the full flush at input offset %zu contains a match whose source starts at %lld (before the flush point)", where.c_str(), p.in_off, (long long) b.min_src);
		refinf::Options ro;
		ro.max_out = all.size() + 64;
		refinf::Result rs = refinf::inflate(d.out.data() + p.out_off, d.out.size() - p.out_off - trl, ro);
		std::vector<uint8_t> rest(all.begin() + p.in_off, all.end());
		PBT_CHECK(rs.st == refinf::OK && rs.out == rest, "deflate:flush:full-independence", "%s: the stream from the full-flush point (output offset %zu) does not decode on its own to the input from offset %zu: %s", where.c_str(), p.out_off, p.in_off, refinf::status_name(rs.st));
	}
	c.nontrivial = !pts.empty() && after_flush_repeat;
	c.label(fmt("level=%d", o.level));
	if (far) c.label("flush-point-beyond-64KiB");
	if (dmode) c.label(dmode == 1 ? "dictionary=set_dict" : "dictionary=process+reset");
	c.label(fmt("flush-points=%zu", pts.size() > 3 ? 3 : pts.size()));
	for (auto &p : pts) c.label(p.kind == FULL_FLUSH ? "completed-full-flush" : "completed-sync-flush");
	if (out.mode == 1 && out.param < 8) c.label("out<8-bytes");
	if (c.want_sample) { std::string ks; for (int k : kinds) ks += std::to_string(k);
		c.sample = fmt("{\"steps\":%s,\"flush_kinds\":\"%s\",\"level\":%d,\"gzip_flag\":%d,\"hist_bits\":%d,\"cpu\":\"%s\",\"in\":\"%s\",\"out\":\"%s\",\"completed_flush_points\":%zu}", dg::describe(segs).c_str(), ks.c_str(), o.level, o.gzip_flag, o.hist_bits, lv, in.text().c_str(), out.text().c_str(), pts.size()); }
}

// one-shot raw deflate with FULL_FLUSH and end_of_stream = 0: byte aligned, unterminated, appendable
static void body_stateless_concat(Tape &t, Ctx &c) {
	int npieces = (int) t.range(2, 5);
	int level = (int) t.range(0, 3);
	const char *lv = cpu::LEVEL_NAMES[t.pick<uint32_t>({11, 0, 1, 6, 8})];
	std::vector<dg::Seg> segs;
	for (int i = 0; i < npieces; i++) {
		dg::Seg s{(int) t.range(0, 8), (size_t) (t.range(0, 5) == 0 ? 0 : t.spread(1, 5000)), t.bits64(), (size_t) t.range(1, 200), 0};
		if (i > 0 && t.coin()) { s.kind = 6; s.back = (size_t) t.range(1, 4000); }
		segs.push_back(s);
	}
	// an "impatient" caller moves on to the next input segment as soon as its input was taken, even if the output buffer filled up in the middle of the
	// flush (marker partly staged): nothing is claimed for that flush point, but the next completed flush must then cover everything fed so far
	bool impatient = t.range(0, 2) == 0;
	std::vector<uint8_t> all;
	dg::expand(segs, all);
	kern::use_level(lv);
	c.fpmix(dg::fingerprint(segs)); c.fpmix(level); c.fpmix(mix64((uint64_t) (uintptr_t) lv));
	std::vector<uint8_t> joined;
	size_t pos = 0;
	// one case in three keeps ONE stream object for all pieces, the way igzip_rand_test's stateless full-flush driver does: total_in / total_out then
	// start from non-zero values in every call after the first (Deflater::call compares their deltas with the bytes consumed / produced)
	bool reuse = impatient;
	std::unique_ptr<igz::Deflater> shared;
	for (int i = 0; i < npieces; i++) {
		igz::DefOpts o;
		o.level = level;
		o.stateless = true;
		o.lbuf_size = igz::lvl_buf_size(level, (int) t.range(0, 3));
		std::unique_ptr<igz::Deflater> own;
		if (reuse) { if (!shared) shared.reset(new igz::Deflater(o)); } else own.reset(new igz::Deflater(o));
		igz::Deflater &d = reuse ? *shared : *own;
		size_t out_before = d.out.size();
		bool final = i == npieces - 1;
		// non-final pieces: FULL_FLUSH with end_of_stream = 0; final piece: end_of_stream = 1
		size_t len = segs[i].len;
		d.s->end_of_stream = 0;
		igz::CallInfo ci;
		{
			d.pending.assign(all.begin() + pos, all.begin() + pos + len);
			// call() takes the eos flag: stateless with FULL_FLUSH honours it
			d.pending.clear();
			ci = d.call(all.data() + pos, len, len + len / 8 + 1024, final && t.coin() ? NO_FLUSH : FULL_FLUSH, final);
		}
		std::string where = fmt("isal_deflate_stateless piece %d/%d (len %zu, level %d, cpu %s)", i + 1, npieces, len, level, lv);
		PBT_CHECK(!ci.faulted && ci.problem.empty(), "deflate:stateless-concat:fault", "%s: %s", where.c_str(), ci.problem.c_str());
		PBT_CHECK(ci.rc == COMP_OK, "deflate:stateless-concat:rc", "%s: returned %d", where.c_str(), ci.rc);
		if (!final) {
			refinf::Result r = refinf::inflate(d.out.data() + out_before, d.out.size() - out_before);
			PBT_CHECK(r.st == refinf::TRUNCATED && r.at_block_boundary && r.last_block_end_bit == (uint64_t) (d.out.size() - out_before) * 8, "deflate:stateless-concat:aligned",
			          "%s: output is not a byte-aligned unterminated sequence of blocks (%s, last block ends at bit %llu of %zu)", where.c_str(), refinf::status_name(r.st), (unsigned long long) r.last_block_end_bit, (d.out.size() - out_before) * 8);
			for (auto &b : r.blocks) PBT_CHECK(!b.bfinal, "deflate:stateless-concat:aligned", "%s: a non-final piece contains a BFINAL block", where.c_str());
			std::vector<uint8_t> piece(all.begin() + pos, all.begin() + pos + len);
			PBT_CHECK(r.out == piece, "deflate:stateless-concat:decode", "%s: piece does not decode to its input", where.c_str());
		}
		joined.insert(joined.end(), d.out.begin() + out_before, d.out.end());
		pos += len;
		if (!reuse) { own.reset(); guard::release_all(); }
	}
	std::string v = igzc::verify_stream(joined, all, IGZIP_DEFLATE, 0);
	PBT_CHECK(v.empty(), "deflate:stateless-concat:decode", "appended outputs of %d stateless calls (level %d, cpu %s) are not one valid stream for the concatenated input: %s", npieces, level, lv, v.c_str());
	c.nontrivial = all.size() >= 64;
	if (reuse) c.label("one-stream-object-for-all-pieces");
	c.label(fmt("level=%d", level));
	if (c.want_sample) c.sample = fmt("{\"pieces\":%s,\"level\":%d,\"cpu\":\"%s\",\"joined_bytes\":%zu}", dg::describe(segs).c_str(), level, lv, joined.size());
}

int main(int argc, char **argv) {
	refcrc::self_test();
	std::vector<Sub> subs = {
		{"flush_points", body, 64, 5, nullptr, "history: feed segment, request NO/SYNC/FULL flush, drain with generated output chunkings (incl. < 8-byte buffers), repeat, finish; at every call that returns with all input consumed and output space left under SYNC/FULL: state NEW_HDR, output ends 00 00 FF FF, reference decoder and zlib Z_SYNC_FLUSH decode everything fed, byte aligned, no BFINAL; after a full flush every later block's minimum match source >= the flush point and the suffix decodes alone; non-trivial: a completed flush followed by >= 64 bytes that repeat pre-flush content"},
		{"stateless_concat", body_stateless_concat, 64, 2, nullptr, "2..5 isal_deflate_stateless calls on raw deflate with FULL_FLUSH and end_of_stream=0 then a final call: each non-final output is byte aligned without BFINAL and decodes to its input; the appended outputs are one valid stream; non-trivial: >= 64 bytes"},
	};
	return pbt_main(argc, argv, "C14", subs);
}
