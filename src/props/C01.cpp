// C01 - compression is lossless and RFC 1951/1950/1952 conformant, in every variant the dispatcher can select
#include "igzcheck.h"
#include "datagen.h"
using namespace pbt;

struct Case {
	std::vector<dg::Seg> segs;
	int cls = 0;
	igz::DefOpts o;
	int api = 0; // 0 stateless, 1 one isal_deflate call with end_of_stream, 2 streaming schedule
	int flush = 0;
	const char *level_name = "host";
	int lbuf_class = 0;
	igzc::StreamPlan plan;
	int table_kind = 0; // 0 default 1 static 2 custom from the data's histogram 3 custom from a generated histogram
};

static void decode_case(Tape &t, Case &c, size_t cap) {
	dg::gen(t, c.segs, cap, &c.cls);
	c.o.level = (int) t.range(0, 3);
	c.api = (int) t.pick<uint32_t>({2, 0, 1, 2});
	c.o.gzip_flag = (int) t.range(0, 4);
	c.o.hist_bits = (int) t.pick<uint32_t>({0, 15, 9, 10, 11, 12, 13, 14, 1, 2, 3, 4, 5, 6, 7, 8});
	c.table_kind = (int) t.pick<uint32_t>({0, 1, 2, 3, 0});
	c.lbuf_class = (int) t.range(0, 5);
	c.level_name = cpu::LEVEL_NAMES[t.pick<uint32_t>({11, 0, 1, 4, 6, 8, 7, 10, 2, 3, 5, 9})];
	c.o.stateless = c.api == 0;
	if (c.o.level > 0) {
		c.o.lbuf_size = igz::lvl_buf_size(c.o.level, c.lbuf_class > 4 ? 0 : c.lbuf_class) + (c.lbuf_class == 5 ? (uint32_t) t.range(1, 63) : 0);
		if (c.api == 0 && c.o.level == 1 && t.range(0, 3) == 0) c.o.lbuf_null = true; // documented as legal for stateless level 1
	}
	if (c.api == 0) c.flush = t.coin() ? FULL_FLUSH : NO_FLUSH;
	else if (c.api == 1) c.flush = (int) t.range(0, 2);
	size_t len = 0;
	for (auto &s : c.segs) len += s.len;
	c.plan = igzc::decode_plan(t, len);
}

static struct isal_hufftables g_custom;

static void run_case(Case &c, Tape &t, Ctx &ctx) {
	std::vector<uint8_t> data;
	dg::expand(c.segs, data);
	kern::use_level(c.level_name);
	if (getenv("VERIF_TRACE")) { fprintf(stderr, "data[%zu]=", data.size()); for (size_t i = 0; i < data.size() && i < 200; i++) fprintf(stderr, "%02x", data[i]); fprintf(stderr, "\n"); }
	// Huffman table choice (only consulted at level 0; installed while the stream is in ZSTATE_NEW_HDR)
	c.o.table = IGZIP_HUFFTABLE_DEFAULT;
	if (c.table_kind == 1) c.o.table = IGZIP_HUFFTABLE_STATIC;
	else if (c.table_kind >= 2) {
		struct isal_huff_histogram h;
		memset(&h, 0, sizeof h);
		if (c.table_kind == 2) isal_update_histogram(data.data(), (int) data.size(), &h);
		else {
			uint64_t hs = t.bits64();
			// a table trained on something else: flat counts, or heavily skewed ones (code lengths up to the limit in all three alphabets)
			bool skew = hs & 1;
			for (int i = 0; i < ISAL_DEF_LIT_LEN_SYMBOLS; i++) h.lit_len_histogram[i] = (mix64(hs + i) % 7 == 0) ? 0 : skew ? 1ull << (mix64(hs * 3 + i) % 40) : mix64(hs * 3 + i) % 1000;
			for (int i = 0; i < ISAL_DEF_DIST_SYMBOLS; i++) h.dist_histogram[i] = skew ? 1ull << (mix64(hs * 5 + i) % 36) : mix64(hs * 5 + i) % 100;
		}
		int rc = isal_create_hufftables(&g_custom, &h);
		PBT_CHECK(rc == 0, "deflate:create_hufftables", "isal_create_hufftables returned %d", rc);
		c.o.table = IGZIP_HUFFTABLE_CUSTOM;
		c.o.custom = &g_custom;
	}
	igz::Deflater d(c.o);
	std::string key = "deflate:lvl" + std::to_string(c.o.level) + (c.api == 0 ? ":stateless" : ":stateful");
	std::string where = fmt("level %d, %s, gzip_flag %d, hist_bits %d, table %d, level_buf %u%s, cpu %s, %zu input bytes", c.o.level, c.api == 0 ? "isal_deflate_stateless" : c.api == 1 ? "one isal_deflate call" : "streaming",
	                        c.o.gzip_flag, c.o.hist_bits, c.table_kind, c.o.lbuf_size, c.o.lbuf_null ? "(NULL)" : "", c.level_name, data.size());
	uint64_t ncalls = 1;
	if (c.api <= 1) {
		size_t cap = data.size() + data.size() / 8 + 4096; // generous (what happens below the documented bound is C10's)
		// one-shot calls: half of them get exactly the documented worst-case space plus 0..8 bytes - the stream must be just as complete
		if (c.api == 0 && (mix64(dg::fingerprint(c.segs)) & 1)) cap = igz::stateless_bound(data.size(), c.o.gzip_flag) + (size_t) (mix64(dg::fingerprint(c.segs) ^ 0x77) % 9);
		igz::CallInfo ci = d.call(data.data(), data.size(), cap, c.flush, true);
		PBT_CHECK(!ci.faulted, key + ":fault", "%s: %s", where.c_str(), ci.problem.c_str());
		PBT_CHECK(ci.problem.empty(), key + ":counters", "%s: %s", where.c_str(), ci.problem.c_str());
		PBT_CHECK(ci.rc == COMP_OK, key + ":rc", "%s: returned %d with ample output space", where.c_str(), ci.rc);
		if (c.api == 0) PBT_CHECK(d.finished() && d.pending.empty(), key + ":state", "%s: one-shot call left state %d, %zu input bytes unconsumed", where.c_str(), (int) d.s->internal_state.state, d.pending.size());
		// the stateful API may need further calls (it returns when input is empty or output is full): keep offering ample output space
		int extra = 0;
		while (!d.finished()) {
			ci = d.call(nullptr, 0, cap, c.flush, true);
			PBT_CHECK(!ci.faulted, key + ":fault", "%s: %s", where.c_str(), ci.problem.c_str());
			PBT_CHECK(ci.problem.empty(), key + ":counters", "%s: %s", where.c_str(), ci.problem.c_str());
			PBT_CHECK(ci.rc == COMP_OK, key + ":rc", "%s: returned %d", where.c_str(), ci.rc);
			PBT_CHECK(ci.consumed + ci.produced > 0 || d.finished(), key + ":livelock", "%s: call %d with end_of_stream and %zu bytes of output space made no progress (state %d)", where.c_str(), extra + 2, cap, (int) d.s->internal_state.state);
			if (++extra > 64) throw Skip("inconclusive: more than 64 follow-up calls");
		}
		ncalls = 1 + extra;
		PBT_CHECK(d.s->total_in == data.size() && d.pending.empty(), key + ":counters", "%s: total_in=%u avail_in=%zu", where.c_str(), d.s->total_in, d.pending.size());
	} else {
		std::string ks;
		std::string err = igzc::run_stream(d, data, c.plan, ks, &ncalls);
		if (ks == "inconclusive") throw Skip("call bound reached without a verdict (inconclusive)");
		PBT_CHECK(err.empty(), key + ":" + ks, "%s, in %s out %s flush-mode %d: %s", where.c_str(), c.plan.in.text().c_str(), c.plan.out.text().c_str(), c.plan.flush_mode, err.c_str());
	}
	refinf::Result ri;
	std::string v = igzc::verify_stream(d.out, data, c.o.gzip_flag, c.o.hist_bits, &ri);
	PBT_CHECK(v.empty(), key + ":decode", "%s%s: %s", where.c_str(), c.api == 2 ? fmt(" (in %s, out %s, flush-mode %d)", c.plan.in.text().c_str(), c.plan.out.text().c_str(), c.plan.flush_mode).c_str() : "", v.c_str());
	// labels / non-triviality
	bool split_stored = false;
	int stored = 0;
	for (auto &b : ri.blocks) if (b.type == 0 && b.stored_len > 0) stored++;
	split_stored = stored >= 2;
	ctx.nontrivial = data.size() >= 1 && (ri.nmatches > 0 || ri.blocks.size() >= 2 || split_stored);
	ctx.label(std::string("cpu=") + c.level_name + "->" + cpu::resolved_name(c.o.level == 0 ? "isal_deflate_body" : c.o.level == 1 ? "isal_deflate_icf_body_lvl1" : c.o.level == 2 ? "isal_deflate_icf_body_lvl2" : "isal_deflate_icf_body_lvl3"));
	ctx.label(fmt("level=%d", c.o.level));
	ctx.label(c.api == 0 ? "api=stateless" : c.api == 1 ? "api=single-call" : "api=streaming");
	ctx.label(fmt("class=%d", c.cls));
	if (split_stored) ctx.label("stored-block-split");
	if (ri.nmatches) ctx.label("has-match");
	if (data.size() > 2 * 32768 + 288) ctx.label("window-wrap");
	if (ri.max_dist > 16384) ctx.label("dist>16K");
	if (ctx.want_sample) ctx.sample = fmt("{\"data\":%s,\"level\":%d,\"api\":%d,\"gzip_flag\":%d,\"hist_bits\":%d,\"table\":%d,\"level_buf_size\":%u,\"cpu\":\"%s\",\"flush\":%d,\"in\":\"%s\",\"out\":\"%s\",\"calls\":%llu,\"compressed\":%zu,\"blocks\":%zu,\"matches\":%zu}",
	                                      dg::describe(c.segs).c_str(), c.o.level, c.api, c.o.gzip_flag, c.o.hist_bits, c.table_kind, c.o.lbuf_size, c.level_name, c.api == 2 ? c.plan.flush_mode : c.flush,
	                                      c.plan.in.text().c_str(), c.plan.out.text().c_str(), (unsigned long long) ncalls, d.out.size(), ri.blocks.size(), ri.nmatches);
}

static void body(Tape &t, Ctx &ctx) {
	Case c;
	decode_case(t, c, opt.thorough ? 300000 : 150000);
	ctx.fpmix(dg::fingerprint(c.segs)); ctx.fpmix(c.o.level * 1000 + c.api * 100 + c.o.gzip_flag * 10 + c.flush); ctx.fpmix(c.o.hist_bits * 64 + c.table_kind * 8 + c.lbuf_class);
	ctx.fpmix(mix64((uint64_t) (uintptr_t) c.level_name)); ctx.fpmix(c.plan.in.mode * 7 + c.plan.in.param); ctx.fpmix(c.plan.out.mode * 7 + c.plan.out.param); ctx.fpmix(c.plan.flush_mode);
	run_case(c, t, ctx);
}

int main(int argc, char **argv) {
	refcrc::self_test();
	const char *rule = "case = (data recipe, level 0-3, flush, wrapper, hist_bits, default/static/custom table, level_buf size, API {stateless, single isal_deflate call, streaming schedule}, simulated cpu level); "
	                   "oracle: zlib inflate with the matching windowBits returns Z_STREAM_END having consumed every byte and yields the input, the RFC 1951 reference decoder accepts and ends on the "
	                   "last byte, trailers equal zlib crc32/adler32 of the input; non-trivial: non-empty input whose stream has a match, >= 2 blocks or a split stored block";
	std::vector<Sub> subs = {{"roundtrip", body, 48, 1, nullptr, rule}};
	return pbt_main(argc, argv, "C01", subs);
}
