// C10 - compression honours the output-space contract and always terminates
#include "igzcheck.h"
#include "datagen.h"
using namespace pbt;

static size_t bound_for(size_t len, int gzip_flag) {
	size_t hdr, trl;
	igz::wrapper_sizes(gzip_flag, hdr, trl);
	size_t blocks = (len + 65534) / 65535;
	if (blocks < 1) blocks = 1;
	return len + 5 * blocks + hdr + trl;
}

static void gen_data(Tape &t, std::vector<dg::Seg> &segs, std::vector<uint8_t> &data) {
	// biased to incompressible and empty
	switch (t.range(0, 7)) {
	case 0: segs.clear(); break;
	case 1: segs = {dg::Seg{0, (size_t) t.range(1, 70), t.bits64(), 1, 0}}; break;
	case 2: segs = {dg::Seg{0, (size_t) t.range(65530, 65540), t.bits64(), 1, 0}}; break;
	case 3: segs = {dg::Seg{0, (size_t) t.range(131065, 131075), t.bits64(), 1, 0}}; break;
	case 4: segs = {dg::Seg{0, (size_t) t.spread(1, 300000), t.bits64(), 1, 0}}; break;
	default: dg::gen(t, segs, 200000); break;
	}
	dg::expand(segs, data);
}

static void body_oneshot(Tape &t, Ctx &c) {
	std::vector<dg::Seg> segs;
	std::vector<uint8_t> data;
	gen_data(t, segs, data);
	igz::DefOpts o;
	o.level = (int) t.range(0, 3);
	o.gzip_flag = (int) t.range(0, 4);
	o.stateless = true;
	o.lbuf_size = igz::lvl_buf_size(o.level, (int) t.range(0, 4));
	int flush = t.coin() ? FULL_FLUSH : NO_FLUSH;
	const char *lv = cpu::LEVEL_NAMES[t.pick<uint32_t>({11, 0, 1, 6, 8})];
	size_t bound = bound_for(data.size(), o.gzip_flag);
	kern::use_level(lv);
	// unconstrained compressed size
	size_t csize;
	{
		igz::Deflater d0(o);
		igz::CallInfo ci = d0.call(data.data(), data.size(), bound + 64, flush, true);
		PBT_CHECK(!ci.faulted && ci.problem.empty(), "deflate:stateless:fault", "ample space: %s", ci.problem.c_str());
		PBT_CHECK(ci.rc == COMP_OK, "deflate:stateless:bound", "isal_deflate_stateless returned %d with avail_out = bound+64 (len %zu level %d gzip_flag %d flush %d)", ci.rc, data.size(), o.level, o.gzip_flag, flush);
		csize = d0.out.size();
		guard::release_all();
	}
	size_t avail;
	switch (t.range(0, 4)) {
	case 0: avail = (size_t) t.range(0, 40); break;
	case 1: { long d = (long) t.range(0, 40) - 20; avail = (size_t) std::max<long>(0, (long) csize + d); break; }
	case 2: { long d = (long) t.range(0, 40) - 20; avail = (size_t) std::max<long>(0, (long) bound + d); break; }
	case 3: avail = bound; break;
	default: avail = (size_t) t.spread(0, bound + 16); break;
	}
	if (data.size() <= 70 && t.coin()) avail = (size_t) t.range(0, bound + 16);
	c.fpmix(dg::fingerprint(segs)); c.fpmix(o.level * 100 + o.gzip_flag * 10 + flush); c.fpmix(avail); c.fpmix(mix64((uint64_t) (uintptr_t) lv)); c.fpmix(o.lbuf_size);
	igz::Deflater d(o);
	igz::CallInfo ci = d.call(data.data(), data.size(), avail, flush, true);
	std::string where = fmt("isal_deflate_stateless(len %zu, level %d, gzip_flag %d, flush %d, avail_out %zu; bound %zu, unconstrained size %zu, cpu %s)", data.size(), o.level, o.gzip_flag, flush, avail, bound, csize, lv);
	PBT_CHECK(!ci.faulted, "deflate:stateless:fault", "%s: %s", where.c_str(), ci.problem.c_str());
	PBT_CHECK(ci.problem.empty(), "deflate:stateless:counters", "%s: %s", where.c_str(), ci.problem.c_str());
	PBT_CHECK(ci.rc == COMP_OK || ci.rc == STATELESS_OVERFLOW, "deflate:stateless:rc", "%s: returned %d", where.c_str(), ci.rc);
	if (avail >= bound) PBT_CHECK(ci.rc == COMP_OK, "deflate:stateless:bound", "%s: reports overflow although avail_out >= input + 5 per started 65535-byte block + wrapper", where.c_str());
	if (ci.rc == COMP_OK) {
		PBT_CHECK(d.out.size() <= bound, "deflate:stateless:bound", "%s: produced %zu bytes, more than the bound", where.c_str(), d.out.size());
		std::string v = igzc::verify_stream(d.out, data, o.gzip_flag, 0);
		PBT_CHECK(v.empty(), "deflate:stateless:truncated-success", "%s: returned COMP_OK but the %zu output bytes are not a complete stream for the input: %s", where.c_str(), d.out.size(), v.c_str());
		c.label("ok");
	} else c.label("overflow");
	long dist_b = (long) avail - (long) bound, dist_c = (long) avail - (long) csize;
	c.nontrivial = std::labs(dist_b) <= 16 || std::labs(dist_c) <= 16;
	c.label(fmt("level=%d", o.level));
	if (data.size() > 65535) c.label("len>65535");
	if (c.want_sample) c.sample = fmt("{\"data\":%s,\"level\":%d,\"gzip_flag\":%d,\"flush\":%d,\"avail_out\":%zu,\"bound\":%zu,\"unconstrained\":%zu,\"rc\":%d}", dg::describe(segs).c_str(), o.level, o.gzip_flag, flush, avail, bound, csize, ci.rc);
}

// small inputs: every avail_out in 0..bound+16 (one case = one (data, params) tuple, all sizes inside)
static void body_oneshot_all(Tape &t, Ctx &c) {
	size_t len = (size_t) t.range(0, 70);
	uint64_t seed = t.bits64();
	int kind = (int) t.pick<uint32_t>({0, 1, 4, 8});
	std::vector<dg::Seg> segs = {dg::Seg{kind, len, seed, 1, 0}};
	std::vector<uint8_t> data;
	dg::expand(segs, data);
	igz::DefOpts o;
	o.level = (int) t.range(0, 3);
	o.gzip_flag = (int) t.range(0, 4);
	o.stateless = true;
	o.lbuf_size = igz::lvl_buf_size(o.level, 0);
	int flush = t.coin() ? FULL_FLUSH : NO_FLUSH;
	size_t bound = bound_for(len, o.gzip_flag);
	c.fpmix(len); c.fpmix(seed); c.fpmix(kind); c.fpmix(o.level * 100 + o.gzip_flag * 10 + flush);
	bool seen_ok = false;
	for (size_t avail = 0; avail <= bound + 16; avail++) {
		igz::Deflater d(o);
		igz::CallInfo ci = d.call(data.data(), data.size(), avail, flush, true);
		std::string where = fmt("isal_deflate_stateless(len %zu kind %d, level %d, gzip_flag %d, flush %d, avail_out %zu; bound %zu)", len, kind, o.level, o.gzip_flag, flush, avail, bound);
		PBT_CHECK(!ci.faulted, "deflate:stateless:fault", "%s: %s", where.c_str(), ci.problem.c_str());
		PBT_CHECK(ci.problem.empty(), "deflate:stateless:counters", "%s: %s", where.c_str(), ci.problem.c_str());
		PBT_CHECK(ci.rc == COMP_OK || ci.rc == STATELESS_OVERFLOW, "deflate:stateless:rc", "%s: returned %d", where.c_str(), ci.rc);
		if (avail >= bound) PBT_CHECK(ci.rc == COMP_OK, "deflate:stateless:bound", "%s: overflow at or above the bound", where.c_str());
		if (ci.rc == COMP_OK) {
			PBT_CHECK(d.out.size() <= bound, "deflate:stateless:bound", "%s: produced %zu > bound", where.c_str(), d.out.size());
			std::string v = igzc::verify_stream(d.out, data, o.gzip_flag, 0);
			PBT_CHECK(v.empty(), "deflate:stateless:truncated-success", "%s: COMP_OK with an incomplete stream: %s", where.c_str(), v.c_str());
			seen_ok = true;
		}
		guard::release_all();
	}
	c.nontrivial = seen_ok;
	c.label(fmt("level=%d", o.level));
	if (c.want_sample) c.sample = fmt("{\"len\":%zu,\"kind\":%d,\"level\":%d,\"gzip_flag\":%d,\"flush\":%d,\"avail_out_values\":%zu}", len, kind, o.level, o.gzip_flag, flush, bound + 17);
}

// streaming with end_of_stream reaches ZSTATE_END for any sequence of non-empty output buffers
static void body_stream(Tape &t, Ctx &c) {
	std::vector<dg::Seg> segs;
	std::vector<uint8_t> data;
	dg::gen(t, segs, 100000); // up to a whole 64 KiB incompressible block handed over in one piece
	dg::expand(segs, data);
	igz::DefOpts o;
	o.level = (int) t.range(0, 3);
	o.gzip_flag = (int) t.range(0, 4);
	o.lbuf_size = igz::lvl_buf_size(o.level, (int) t.range(0, 4));
	o.hist_bits = (int) t.pick<uint32_t>({0, 0, 9, 12, 15});
	igzc::StreamPlan p = igzc::decode_plan(t, data.size());
	// tiny output buffers on purpose
	p.out.mode = (int) t.pick<uint32_t>({1, 2, 3});
	p.out.param = (uint32_t) t.pick<uint32_t>({1, 2, 7, 8, 9, 15, 16, 17, 3, 5});
	if (data.size() / p.out.param > 30000) p.out.param = (uint32_t) (data.size() / 30000 + 1);
	const char *lv = cpu::LEVEL_NAMES[t.pick<uint32_t>({11, 0, 1, 6, 8})];
	kern::use_level(lv);
	c.fpmix(dg::fingerprint(segs)); c.fpmix(o.level * 100 + o.gzip_flag * 10 + o.hist_bits); c.fpmix(p.in.mode * 7 + p.in.param); c.fpmix(p.out.mode * 7 + p.out.param); c.fpmix(p.flush_mode); c.fpmix(p.flush_seed);
	igz::Deflater d(o);
	std::string ks;
	uint64_t ncalls = 0;
	std::string err = igzc::run_stream(d, data, p, ks, &ncalls);
	if (ks == "inconclusive") throw Skip("call bound reached (inconclusive)");
	std::string where = fmt("streaming level %d gzip_flag %d hist_bits %d len %zu, in %s out %s flush-mode %d late_eos %d, cpu %s", o.level, o.gzip_flag, o.hist_bits, data.size(), p.in.text().c_str(), p.out.text().c_str(), p.flush_mode, (int) p.late_eos, lv);
	PBT_CHECK(err.empty(), "deflate:stateful:" + ks, "%s: %s", where.c_str(), err.c_str());
	std::string v = igzc::verify_stream(d.out, data, o.gzip_flag, o.hist_bits);
	PBT_CHECK(v.empty(), "deflate:stateful:decode", "%s: %s", where.c_str(), v.c_str());
	c.nontrivial = p.out.param < 8 || p.out.mode == 3;
	c.label(fmt("level=%d", o.level));
	c.label(fmt("out=%s", p.out.text().c_str()));
	if (c.want_sample) c.sample = fmt("{\"data\":%s,\"level\":%d,\"gzip_flag\":%d,\"in\":\"%s\",\"out\":\"%s\",\"flush_mode\":%d,\"calls\":%llu,\"compressed\":%zu}", dg::describe(segs).c_str(), o.level, o.gzip_flag, p.in.text().c_str(), p.out.text().c_str(),
	                                    p.flush_mode, (unsigned long long) ncalls, d.out.size());
}

// invalid level / flush / level buffer: an error code, nothing produced
static void body_invalid(Tape &t, Ctx &c) {
	bool stateless = t.coin();
	int what = (int) t.range(0, 4);
	igz::DefOpts o;
	o.level = (int) t.range(0, 3);
	o.stateless = stateless;
	o.gzip_flag = (int) t.range(0, 4);
	o.lbuf_size = igz::lvl_buf_size(o.level, 1);
	size_t len = (size_t) t.range(0, 3000);
	std::vector<uint8_t> data(len);
	kern::fill(data.data(), len, t.bits64(), 0);
	igz::Deflater d(o);
	int flush = NO_FLUSH;
	std::string desc;
	switch (what) {
	case 0: d.s->level = t.pick<uint32_t>({4, 5, 100, 0xFFFFFFFFu, 0x80000000u}); desc = fmt("level=%u", d.s->level); break;
	case 1: flush = (int) t.pick<uint32_t>({3, 4, 7, 255, 0xFFFF}); desc = fmt("flush=%d", flush); break;
	case 2: if (!stateless) throw Skip("SYNC_FLUSH is valid for the stateful API"); flush = SYNC_FLUSH; desc = "stateless SYNC_FLUSH"; break;
	case 3: {
		int lvl = stateless ? (int) t.range(2, 3) : (int) t.range(1, 3);
		d.s->level = lvl; d.s->level_buf = nullptr; d.s->level_buf_size = t.coin() ? 0 : igz::lvl_buf_size(lvl, 1);
		desc = fmt("level %d with level_buf NULL", lvl); break;
	}
	default: {
		int lvl = (int) t.range(1, 3);
		if (stateless && lvl == 1) lvl = 2;
		uint32_t under = t.coin() ? 0 : igz::lvl_buf_size(lvl, 0) - 1 - (uint32_t) t.pick<uint32_t>({0, 1, 63, 4096});
		guard::Buf lb = guard::alloc(under, guard::END, "level_buf", 16, 0); // exactly as large as announced: using more faults
		d.s->level = lvl; d.s->level_buf = lb.p;
		d.s->level_buf_size = under;
		desc = fmt("level %d with level_buf_size %u", lvl, d.s->level_buf_size); break;
	}
	}
	// half of the stateful cases install a preset dictionary first (valid level at that moment): validation must not depend on the history state
	bool with_dict = !stateless && t.coin();
	if (with_dict) {
		uint32_t lv_now = d.s->level; uint8_t *lb_now = d.s->level_buf; uint32_t ls_now = d.s->level_buf_size;
		d.s->level = 0; // set_dict hashes with the current level; use one that needs no buffer
		int rcd = isal_deflate_set_dict(d.s, data.data(), (uint32_t) std::min<size_t>(len, 500));
		d.s->level = lv_now; d.s->level_buf = lb_now; d.s->level_buf_size = ls_now;
		if (rcd != COMP_OK) throw Skip("dictionary not accepted");
		desc += " after isal_deflate_set_dict";
	}
	c.fpmix(stateless); c.fpmix(what); c.fpmix(mix64(d.s->level) ^ flush); c.fpmix(d.s->level_buf_size); c.fpmix(len); c.fpmix(with_dict);
	// keep the modified fields: call() re-applies only the pointers/flush
	igz::CallInfo ci = d.call(data.data(), len, len + 1024, flush, true);
	std::string where = fmt("%s with %s", stateless ? "isal_deflate_stateless" : "isal_deflate", desc.c_str());
	PBT_CHECK(!ci.faulted, "deflate:invalid-param", "%s: %s", where.c_str(), ci.problem.c_str());
	PBT_CHECK(ci.rc == ISAL_INVALID_LEVEL || ci.rc == ISAL_INVALID_LEVEL_BUF || ci.rc == INVALID_FLUSH, "deflate:invalid-param", "%s: returned %d instead of an error code", where.c_str(), ci.rc);
	PBT_CHECK(ci.problem.empty() && ci.produced == 0 && d.s->total_out == 0, "deflate:invalid-param", "%s: rejected (rc %d) but output was produced (%zu bytes, total_out %u) %s", where.c_str(), ci.rc, ci.produced, d.s->total_out, ci.problem.c_str());
	c.nontrivial = true;
	c.label(desc.substr(0, desc.find('=')));
	if (c.want_sample) c.sample = fmt("{\"api\":\"%s\",\"invalid\":%s,\"rc\":%d}", stateless ? "stateless" : "stateful", jstr(desc).c_str(), ci.rc);
}

int main(int argc, char **argv) {
	refcrc::self_test();
	std::vector<Sub> subs = {
		{"oneshot", body_oneshot, 24, 10, nullptr, "one-shot compression with avail_out near 0, near the unconstrained compressed size and near bound = len + 5*max(1,ceil(len/65535)) + wrapper: >= bound -> COMP_OK, complete stream, <= bound bytes; < bound -> overflow or COMP_OK with a complete stream; output chunk ends at a guard page; non-trivial: avail_out within 16 of bound or of the compressed size"},
		{"oneshot_all_sizes", body_oneshot_all, 12, 2, nullptr, "inputs of 0..70 bytes: every avail_out in 0..bound+16"},
		{"stream_terminates", body_stream, 24, 6, nullptr, "streaming with end_of_stream and tiny output buffers (1,2,7,8,9,15,16,17 bytes, constant/random/boundary sequences) reaches ZSTATE_END (provable-livelock rule) and decodes; non-trivial: a buffer shorter than 8 bytes"},
		{"invalid_params", body_invalid, 12, 2, nullptr, "level >= 4, flush >= 3, stateless SYNC_FLUSH, NULL or undersized level_buf: error code and no output"},
	};
	return pbt_main(argc, argv, "C10", subs);
}
