// C11 - wrapped streams carry correct checksums and verification catches corruption
#include "igzcheck.h"
#include "datagen.h"
#include "deflate_gen.h"
#include "ref_hdr.h"
using namespace pbt;

// ---------------------------------------------------------------- producer
static void body_producer(Tape &t, Ctx &c) {
	std::vector<dg::Seg> segs;
	std::vector<uint8_t> data;
	dg::gen(t, segs, 100000);
	dg::expand(segs, data);
	igz::DefOpts o;
	o.level = (int) t.range(0, 3);
	o.gzip_flag = (int) t.range(1, 4);
	o.lbuf_size = igz::lvl_buf_size(o.level, (int) t.range(0, 4));
	o.stateless = t.range(0, 2) == 0;
	const char *lv = cpu::LEVEL_NAMES[t.pick<uint32_t>({11, 0, 1, 4, 6, 8, 10})];
	igzc::StreamPlan p = igzc::decode_plan(t, data.size());
	kern::use_level(lv);
	c.fpmix(dg::fingerprint(segs)); c.fpmix(o.level * 100 + o.gzip_flag * 10 + o.stateless); c.fpmix(mix64((uint64_t) (uintptr_t) lv)); c.fpmix(p.in.mode * 7 + p.in.param); c.fpmix(p.out.mode * 7 + p.out.param); c.fpmix(p.flush_mode);
	igz::Deflater d(o);
	std::string where = fmt("level %d gzip_flag %d %s cpu %s len %zu in %s out %s flush-mode %d", o.level, o.gzip_flag, o.stateless ? "stateless" : "streaming", lv, data.size(), p.in.text().c_str(), p.out.text().c_str(), p.flush_mode);
	if (o.stateless) {
		igz::CallInfo ci = d.call(data.data(), data.size(), data.size() + data.size() / 8 + 4096, NO_FLUSH, true);
		PBT_CHECK(!ci.faulted && ci.problem.empty() && ci.rc == COMP_OK, "checksum:producer:call", "%s: rc %d %s", where.c_str(), ci.rc, ci.problem.c_str());
	} else {
		std::string ks, err = igzc::run_stream(d, data, p, ks);
		if (ks == "inconclusive") throw Skip("inconclusive");
		PBT_CHECK(err.empty(), "checksum:producer:" + ks, "%s: %s", where.c_str(), err.c_str());
	}
	std::string v = igzc::verify_stream(d.out, data, o.gzip_flag, 0);
	PBT_CHECK(v.empty(), "checksum:producer:trailer", "%s: %s", where.c_str(), v.c_str());
	// the running checksum exposed in the state
	uint32_t want = (o.gzip_flag == IGZIP_GZIP || o.gzip_flag == IGZIP_GZIP_NO_HDR) ? (uint32_t) crc32(0, data.data(), (uInt) data.size()) : (uint32_t) adler32(1, data.data(), (uInt) data.size());
	(void) want;
	c.nontrivial = data.size() >= 1;
	c.label(fmt("gzip_flag=%d", o.gzip_flag));
	c.label(std::string("crc=") + cpu::resolved_name(o.gzip_flag <= 2 ? "crc32_gzip_refl" : "isal_adler32"));
	if (c.want_sample) c.sample = fmt("{\"data\":%s,\"level\":%d,\"gzip_flag\":%d,\"stateless\":%d,\"cpu\":\"%s\",\"trailer\":%s}", dg::describe(segs).c_str(), o.level, o.gzip_flag, (int) o.stateless, lv, jhex(d.out.data() + d.out.size() - (o.gzip_flag <= 2 ? 8 : 4), o.gzip_flag <= 2 ? 8 : 4).c_str());
}

// ---------------------------------------------------------------- verifier
struct Wrapped { std::vector<uint8_t> stream; std::vector<uint8_t> data; size_t hdr = 0; int wrapper = 1; std::string src; };

static void build_wrapped(Tape &t, Wrapped &w, size_t max_data) {
	w.wrapper = t.coin() ? 1 : 2;
	std::vector<uint8_t> defl;
	int src = (int) t.range(0, 2);
	if (src == 0) {
		dgen::Params p;
		p.allow_big = false;
		p.soft_max_out = max_data;
		dgen::Stream s;
		dgen::generate(t, p, s);
		if (s.data.size() > max_data * 4) throw Skip("generated stream too large for this sub-property");
		refinf::Result r = refinf::inflate(s.bytes.data(), s.bytes.size());
		if (r.st != refinf::OK || r.out != s.data) throw OracleBug("grammar stream not valid");
		defl.assign(s.bytes.begin(), s.bytes.begin() + r.end_byte());
		w.data = s.data; w.src = "grammar";
	} else {
		std::vector<dg::Seg> segs;
		int n = (int) t.range(1, 2);
		for (int i = 0; i < n; i++) segs.push_back(dg::Seg{(int) t.range(0, 8), (size_t) t.range(0, max_data / 2), t.bits64(), (size_t) t.range(1, 40), (size_t) t.range(1, 60)});
		if (t.range(0, 3) == 0) segs.push_back(dg::Seg{9, 0, 0, 1, 0}); // Adler-32 low half exactly 0 at the end of the data
		dg::expand(segs, w.data);
		if (src == 1) {
			igz::ZDefOpts zo;
			zo.level = (int) t.range(0, 9);
			zo.strategy = (int) t.pick<uint32_t>({Z_DEFAULT_STRATEGY, Z_FIXED, Z_HUFFMAN_ONLY, Z_RLE});
			defl = igz::zlib_deflate(w.data.data(), w.data.size(), zo);
			w.src = "zlib";
		} else {
			igz::DefOpts o;
			o.level = (int) t.range(0, 3);
			o.stateless = true;
			o.lbuf_size = igz::lvl_buf_size(o.level, 1);
			igz::Deflater d(o);
			igz::CallInfo ci = d.call(w.data.data(), w.data.size(), w.data.size() + 1024, NO_FLUSH, true);
			if (ci.faulted || ci.rc) throw Skip("encoder failed (C01)");
			defl = d.out;
			w.src = "isal";
			guard::release_all();
		}
	}
	if (w.wrapper == 1) {
		refhdr::Gzip g;
		g.mtime = t.bits32();
		g.os = (uint8_t) t.range(0, 255);
		if (t.range(0, 2) == 0) { g.has_name = true; g.name = "n.txt"; }
		if (t.range(0, 3) == 0) { g.has_extra = true; g.extra = {1, 2, 3, 4}; }
		if (t.range(0, 3) == 0) g.hcrc = true;
		w.stream = refhdr::write_gzip(g);
		w.hdr = w.stream.size();
		w.stream.insert(w.stream.end(), defl.begin(), defl.end());
		refhdr::gzip_trailer(w.stream, w.data);
	} else {
		refhdr::Zlib z;
		z.cinfo = 7;
		w.stream = refhdr::write_zlib(z);
		w.hdr = 2;
		w.stream.insert(w.stream.end(), defl.begin(), defl.end());
		refhdr::zlib_trailer(w.stream, w.data);
	}
}

struct Outcome { int rc; bool finished; std::vector<uint8_t> out; uint32_t crc; bool faulted; std::string problem; };
static Outcome run_inflate(const std::vector<uint8_t> &in, int crc_flag, int chunk_mode, size_t split, bool stateless, size_t outcap) {
	igz::InfOpts io;
	io.crc_flag = crc_flag;
	io.stateless = stateless;
	igz::Inflater inf(io);
	Outcome o{0, false, {}, 0, false, ""};
	size_t pos = 0;
	int idle = 0;
	for (int call = 0; call < 100000; call++) {
		size_t add;
		if (stateless || chunk_mode == 0) add = in.size() - pos;
		else if (chunk_mode == 1) add = pos < in.size() ? 1 : 0;
		else add = pos < split ? std::min(split, in.size()) - pos : in.size() - pos;
		igz::CallInfo ci = inf.call(in.data() + pos, add, outcap);
		pos += add;
		if (ci.faulted || !ci.problem.empty()) { o.faulted = true; o.problem = ci.problem; break; }
		o.rc = ci.rc;
		if (ci.rc != 0 || inf.finished() || stateless) break;
		if (ci.consumed + ci.produced == 0 && add == 0) { if (++idle >= 2) break; } else idle = 0;
	}
	o.finished = inf.finished();
	o.out = inf.out;
	o.crc = inf.s->crc;
	guard::release_all();
	return o;
}

// the oracle of the verifier side: success implies the trailer actually present matches the bytes actually delivered
static void judge(const std::vector<uint8_t> &m, int crc_flag, int wrapper, bool stripped, const Outcome &o, const std::string &what, bool *nontrivial_success) {
	std::string key = "checksum:verifier";
	PBT_CHECK(!o.faulted, key + ":fault", "%s: %s", what.c_str(), o.problem.c_str());
	bool success = o.finished && o.rc == ISAL_DECOMP_OK;
	if (!success) return; // an error code or an unfinished state: never silent success
	size_t start = 0;
	if (!stripped) {
		if (wrapper == 1) {
			refhdr::Parsed ph;
			int pr = refhdr::parse_gzip(m.data(), m.size(), ph);
			PBT_CHECK(pr == 1, key + ":false-success", "%s: reported success but the gzip header is not parseable (%d)", what.c_str(), pr);
			PBT_CHECK(ph.hcrc_ok, key + ":false-success", "%s: reported success although the header CRC16 does not match", what.c_str());
			start = ph.len;
		} else {
			PBT_CHECK(m.size() >= 2 && (m[0] & 15) == 8 && ((m[0] << 8) | m[1]) % 31 == 0, key + ":false-success", "%s: reported success with an invalid zlib header", what.c_str());
			PBT_CHECK(!(m[1] & 0x20), key + ":false-success", "%s: reported success for a stream that demands a preset dictionary", what.c_str());
			start = 2;
		}
	}
	refinf::Options ro;
	ro.lenient = true;
	ro.max_out = 1 << 22;
	refinf::Result r = refinf::inflate(m.data() + start, m.size() - start, ro);
	PBT_CHECK(r.st == refinf::OK, key + ":false-success", "%s: reported success but the RFC 1951 reference decoder says %s at bit %llu", what.c_str(), refinf::status_name(r.st), (unsigned long long) r.err_bit);
	PBT_CHECK(r.out == o.out, key + ":false-success", "%s: reported success but delivered %zu bytes that differ from the reference decoder's %zu bytes", what.c_str(), o.out.size(), r.out.size());
	size_t tpos = start + r.end_byte();
	size_t tlen = wrapper == 1 ? 8 : 4;
	PBT_CHECK(tpos + tlen <= m.size(), key + ":false-success", "%s: reported success although only %zu trailer bytes are present", what.c_str(), m.size() - std::min(m.size(), tpos));
	const uint8_t *tp = m.data() + tpos;
	if (wrapper == 1) {
		uint32_t crc = (uint32_t) crc32(0, o.out.data(), (uInt) o.out.size());
		uint32_t tc = tp[0] | tp[1] << 8 | tp[2] << 16 | (uint32_t) tp[3] << 24, tl = tp[4] | tp[5] << 8 | tp[6] << 16 | (uint32_t) tp[7] << 24;
		PBT_CHECK(tc == crc && tl == (uint32_t) o.out.size(), key + ":false-success", "%s: reported success but the trailer says crc %08x len %u while the delivered bytes have crc %08x len %zu", what.c_str(), tc, tl, crc, o.out.size());
		PBT_CHECK(o.crc == crc, key + ":state-crc", "%s: state.crc %08x, CRC-32 of the delivered bytes %08x", what.c_str(), o.crc, crc);
	} else {
		uint32_t ad = (uint32_t) adler32(1, o.out.data(), (uInt) o.out.size());
		uint32_t ta = (uint32_t) tp[0] << 24 | tp[1] << 16 | tp[2] << 8 | tp[3];
		PBT_CHECK(ta == ad, key + ":false-success", "%s: reported success but the trailer says adler %08x while the delivered bytes have %08x", what.c_str(), ta, ad);
		PBT_CHECK(o.crc == ad, key + ":state-crc", "%s: state.crc %08x, Adler-32 of the delivered bytes %08x", what.c_str(), o.crc, ad);
	}
	if (nontrivial_success) *nontrivial_success = true;
}

// one case = one small wrapped stream x decode configuration; inside: EVERY single-bit flip, EVERY truncation, a byte substitution at every offset
static void body_exhaustive(Tape &t, Ctx &c) {
	Wrapped w;
	build_wrapped(t, w, 120);
	if (w.stream.size() > 300) throw Skip("stream longer than 300 bytes");
	int fsel = (int) t.range(0, 1); // full wrapper or *_NO_HDR_VER
	int crc_flag = w.wrapper == 1 ? (fsel ? ISAL_GZIP_NO_HDR_VER : ISAL_GZIP) : (fsel ? ISAL_ZLIB_NO_HDR_VER : ISAL_ZLIB);
	bool strip = fsel == 1;
	int chunk_mode = (int) t.range(0, 2);
	bool stateless = chunk_mode == 0 && t.coin();
	const char *lv = cpu::LEVEL_NAMES[t.pick<uint32_t>({11, 0, 1, 6})];
	uint64_t vseed = t.bits64();
	kern::use_level(lv);
	std::vector<uint8_t> base(w.stream.begin() + (strip ? w.hdr : 0), w.stream.end());
	c.fpmix(mix64(base.size())); for (uint8_t b : base) c.fpmix(b);
	c.fpmix(crc_flag * 10 + chunk_mode); c.fpmix(stateless); c.fpmix(mix64((uint64_t) (uintptr_t) lv));
	size_t outcap = w.data.size() * 4 + 600;
	std::string cfg = fmt("%s stream (%zu bytes -> %zu), crc_flag %d, %s, cpu %s", w.src.c_str(), base.size(), w.data.size(), crc_flag, stateless ? "stateless" : chunk_mode == 0 ? "one call" : chunk_mode == 1 ? "1-byte chunks" : "two chunks", lv);
	// the uncorrupted stream must verify
	Outcome o0 = run_inflate(base, crc_flag, chunk_mode, base.size() / 2, stateless, outcap);
	PBT_CHECK(!o0.faulted && o0.finished && o0.rc == 0 && o0.out == w.data, "checksum:verifier:valid-rejected", "%s: the valid stream is not accepted (rc %d finished %d, %zu bytes) %s", cfg.c_str(), o0.rc, (int) o0.finished, o0.out.size(), o0.problem.c_str());
	size_t nmut = 0, nsucc = 0;
	bool nt = false;
	std::vector<uint8_t> m;
	for (size_t bit = 0; bit < base.size() * 8; bit++) {
		m = base;
		m[bit / 8] ^= (uint8_t) (1u << (bit % 8));
		size_t split = chunk_mode == 2 ? (size_t) (mix64(vseed + bit) % (base.size() + 1)) : 0;
		Outcome o = run_inflate(m, crc_flag, chunk_mode, split, stateless, outcap);
		bool s = false;
		judge(m, crc_flag, w.wrapper, strip, o, fmt("%s, bit %zu of byte %zu flipped", cfg.c_str(), bit % 8, bit / 8), &s);
		nmut++; nsucc += s;
		if (o.out != w.data || bit / 8 >= base.size() - (w.wrapper == 1 ? 8 : 4)) nt = true;
	}
	for (size_t len = 0; len < base.size(); len++) {
		m.assign(base.begin(), base.begin() + len);
		Outcome o = run_inflate(m, crc_flag, chunk_mode, len / 2, stateless, outcap);
		PBT_CHECK(!o.faulted, "checksum:verifier:fault", "%s truncated to %zu bytes: %s", cfg.c_str(), len, o.problem.c_str());
		PBT_CHECK(!(o.finished && o.rc == 0), "checksum:verifier:false-success", "%s: reported success for the stream truncated to %zu of %zu bytes", cfg.c_str(), len, base.size());
		nmut++;
	}
	for (size_t off = 0; off < base.size(); off++) {
		m = base;
		uint8_t nv = (uint8_t) (mix64(vseed * 3 + off) >> 9);
		if (nv == m[off]) nv ^= 0x5A;
		m[off] = nv;
		Outcome o = run_inflate(m, crc_flag, chunk_mode, off, stateless, outcap);
		bool s = false;
		judge(m, crc_flag, w.wrapper, strip, o, fmt("%s, byte %zu replaced by %02x", cfg.c_str(), off, nv), &s);
		nmut++; nsucc += s;
	}
	c.nontrivial = nt && w.data.size() > 0;
	c.label(fmt("crc_flag=%d", crc_flag));
	c.label(std::string("src=") + w.src);
	c.label(fmt("mutants-accepted(benign)=%s", nsucc == 0 ? "0" : nsucc < 10 ? "1-9" : ">=10"));
	if (c.want_sample) c.sample = fmt("{\"stream\":%s,\"source\":\"%s\",\"crc_flag\":%d,\"chunking\":%d,\"stateless\":%d,\"cpu\":\"%s\",\"mutants\":%zu,\"accepted_benign\":%zu}", jhex(base.data(), base.size(), 40).c_str(), w.src.c_str(), crc_flag, chunk_mode, (int) stateless, lv, nmut, nsucc);
}

// larger streams, sampled corruptions, chunk boundary placed on every trailer byte
static void body_sampled(Tape &t, Ctx &c) {
	Wrapped w;
	build_wrapped(t, w, 6000);
	int fsel = (int) t.range(0, 1);
	int crc_flag = w.wrapper == 1 ? (fsel ? ISAL_GZIP_NO_HDR_VER : ISAL_GZIP) : (fsel ? ISAL_ZLIB_NO_HDR_VER : ISAL_ZLIB);
	bool strip = fsel == 1;
	const char *lv = cpu::LEVEL_NAMES[t.pick<uint32_t>({11, 0, 1, 6})];
	kern::use_level(lv);
	std::vector<uint8_t> base(w.stream.begin() + (strip ? w.hdr : 0), w.stream.end());
	size_t tl = w.wrapper == 1 ? 8 : 4;
	uint64_t vseed = t.bits64();
	c.fpmix(mix64(base.size())); for (size_t i = 0; i < base.size() && i < 80; i++) c.fpmix(base[i]);
	c.fpmix(crc_flag); c.fpmix(vseed); c.fpmix(mix64((uint64_t) (uintptr_t) lv));
	size_t outcap = w.data.size() * 2 + 1000;
	std::string cfg = fmt("%s stream (%zu bytes -> %zu), crc_flag %d, cpu %s", w.src.c_str(), base.size(), w.data.size(), crc_flag, lv);
	bool nt = false;
	// a call boundary on every trailer byte, for the valid stream and for a corrupted trailer byte
	for (size_t k = 0; k <= tl; k++) {
		size_t split = base.size() - tl + k;
		Outcome o = run_inflate(base, crc_flag, 2, split, false, outcap);
		PBT_CHECK(!o.faulted && o.finished && o.rc == 0 && o.out == w.data, "checksum:verifier:valid-rejected", "%s: valid stream split at trailer byte %zu rejected (rc %d finished %d) %s", cfg.c_str(), k, o.rc, (int) o.finished, o.problem.c_str());
		for (size_t j = 0; j < tl; j++) {
			std::vector<uint8_t> m = base;
			m[base.size() - tl + j] ^= (uint8_t) (1u << (mix64(vseed + j + k) % 8));
			Outcome oc = run_inflate(m, crc_flag, 2, split, false, outcap);
			PBT_CHECK(!oc.faulted, "checksum:verifier:fault", "%s: %s", cfg.c_str(), oc.problem.c_str());
			PBT_CHECK(!(oc.finished && oc.rc == 0), "checksum:verifier:false-success", "%s: trailer byte %zu corrupted, input split at trailer byte %zu: reported success", cfg.c_str(), j, k);
			nt = true;
		}
	}
	for (int i = 0; i < 60; i++) {
		std::vector<uint8_t> m = base;
		uint64_t h = mix64(vseed * 7 + i);
		size_t off = (size_t) (h % base.size());
		int kind = (int) ((h >> 32) % 3);
		std::string what;
		if (kind == 0) { m[off] ^= (uint8_t) (1u << ((h >> 40) % 8)); what = fmt("bit flip in byte %zu", off); }
		else if (kind == 1) { m[off] = (uint8_t) (m[off] + 1 + (h >> 44) % 255); what = fmt("byte %zu substituted", off); }
		else { m.resize(off); what = fmt("truncated to %zu", off); }
		int cm = (int) ((h >> 52) % 3);
		Outcome o = run_inflate(m, crc_flag, cm, (size_t) ((h >> 20) % (m.size() + 1)), false, outcap);
		if (kind == 2) PBT_CHECK(!o.faulted && !(o.finished && o.rc == 0), "checksum:verifier:false-success", "%s %s: reported success %s", cfg.c_str(), what.c_str(), o.problem.c_str());
		else judge(m, crc_flag, w.wrapper, strip, o, cfg + ", " + what, nullptr);
		if (o.out != w.data) nt = true;
	}
	c.nontrivial = nt;
	c.label(fmt("crc_flag=%d", crc_flag));
	c.label(std::string("src=") + w.src);
	if (c.want_sample) c.sample = fmt("{\"stream_bytes\":%zu,\"data_bytes\":%zu,\"source\":\"%s\",\"crc_flag\":%d,\"cpu\":\"%s\"}", base.size(), w.data.size(), w.src.c_str(), crc_flag, lv);
}

// ---------------------------------------------------------------- one checksum update of more than 2^28 bytes
// (the library splits Adler-32 updates at MAX_ADLER_BUF = 2^28).  Input = one sparse 1 MiB tile mapped repeatedly (memfd), compressed in ONE
// isal_deflate_stateless call, then expanded in ONE isal_inflate_stateless call into a lazily backed mapping.
#include <sys/mman.h>
#include <sys/syscall.h>
#include <unistd.h>
static void body_huge_update(Tape &t, Ctx &c) {
	int wrap = t.coin() ? IGZIP_ZLIB : IGZIP_GZIP;
	int level = (int) t.range(0, 1);
	const size_t TILE = 1u << 20, NT = 258;
	size_t len = (1u << 28) + (size_t) t.pick<uint32_t>({1, 123 + (1u << 20), 4096, 65535});
	c.fpmix(wrap); c.fpmix(level); c.fpmix(len);
	int fd = (int) syscall(SYS_memfd_create, "verif-c11", 0);
	if (fd < 0 || ftruncate(fd, TILE)) throw Skip("memfd_create unavailable");
	std::vector<uint8_t> tile(TILE, 0);
	for (size_t i = 0; i < TILE; i += 997) tile[i] = (uint8_t) (1 + mix64(i) % 255); // sparse: compresses to a few hundred KiB
	tile[0] = 0x11; tile[TILE - 1] = 0x22;
	if (pwrite(fd, tile.data(), TILE, 0) != (ssize_t) TILE) { close(fd); throw Skip("memfd write failed"); }
	uint8_t *in = (uint8_t *) mmap(0, TILE * NT, PROT_NONE, MAP_PRIVATE | MAP_ANONYMOUS | MAP_NORESERVE, -1, 0);
	if (in == MAP_FAILED) { close(fd); throw Skip("cannot reserve address space"); }
	for (size_t i = 0; i < NT; i++) mmap(in + i * TILE, TILE, PROT_READ, MAP_SHARED | MAP_FIXED, fd, 0);
	close(fd);
	// the part beyond 2^28 must not repeat the beginning (a restart from the wrong offset would go unnoticed): private pages with other content
	{
		uint8_t *tail = (uint8_t *) mmap(in + 256 * TILE, 2 * TILE, PROT_READ | PROT_WRITE, MAP_PRIVATE | MAP_ANONYMOUS | MAP_FIXED, -1, 0);
		if (tail == MAP_FAILED) { munmap(in, TILE * NT); throw Skip("cannot map tail"); }
		for (size_t i = 0; i < 2 * TILE; i += 61) tail[i] = (uint8_t) (1 + mix64(i + 5) % 255);
		mprotect(tail, 2 * TILE, PROT_READ);
	}
	size_t ocap = 64u << 20;
	uint8_t *out = (uint8_t *) mmap(0, ocap, PROT_READ | PROT_WRITE, MAP_PRIVATE | MAP_ANONYMOUS | MAP_NORESERVE, -1, 0);
	uint8_t *dec = (uint8_t *) mmap(0, len + 4096, PROT_READ | PROT_WRITE, MAP_PRIVATE | MAP_ANONYMOUS | MAP_NORESERVE, -1, 0);
	auto cleanup = [&] { munmap(in, TILE * NT); if (out != MAP_FAILED) munmap(out, ocap); if (dec != MAP_FAILED) munmap(dec, len + 4096); };
	if (out == MAP_FAILED || dec == MAP_FAILED) { cleanup(); throw Skip("cannot map buffers"); }
	// references (zlib, in pieces below 2^31)
	uLong ad = adler32(0L, Z_NULL, 0), cr = crc32(0L, Z_NULL, 0);
	for (size_t p = 0; p < len; p += 1u << 30) { uInt n = (uInt) std::min<size_t>(1u << 30, len - p); ad = adler32(ad, in + p, n); cr = crc32(cr, in + p, n); }
	static struct isal_zstream s;
	static uint8_t lbuf[ISAL_DEF_LVL1_DEFAULT];
	isal_deflate_stateless_init(&s);
	s.level = level; s.level_buf = lbuf; s.level_buf_size = sizeof lbuf; s.gzip_flag = wrap;
	s.next_in = in; s.avail_in = (uint32_t) len; s.next_out = out; s.avail_out = (uint32_t) ocap; s.end_of_stream = 1;
	int rc = -99;
	guard::Fault f = guard::call([&] { rc = isal_deflate_stateless(&s); });
	std::string where = fmt("%zu bytes (2^28 + %zu) in one call, level %d, %s", len, len - (1u << 28), level, wrap == IGZIP_ZLIB ? "zlib" : "gzip");
	std::string err;
	if (f.faulted) err = "isal_deflate_stateless: " + f.describe();
	else if (rc != COMP_OK) err = fmt("isal_deflate_stateless returned %d", rc);
	size_t clen = s.total_out;
	if (err.empty()) {
		const uint8_t *tp = out + clen - (wrap == IGZIP_ZLIB ? 4 : 8);
		if (wrap == IGZIP_ZLIB) { uint32_t a = (uint32_t) tp[0] << 24 | tp[1] << 16 | tp[2] << 8 | tp[3]; if (a != (uint32_t) ad) err = fmt("producer: zlib trailer Adler-32 %08x, Adler-32 of the input is %08lx", a, ad); }
		else { uint32_t cc = tp[0] | tp[1] << 8 | tp[2] << 16 | (uint32_t) tp[3] << 24, l = tp[4] | tp[5] << 8 | tp[6] << 16 | (uint32_t) tp[7] << 24; if (cc != (uint32_t) cr || l != (uint32_t) len) err = fmt("producer: gzip trailer %08x/%u, expected %08lx/%u", cc, l, cr, (uint32_t) len); }
	}
	if (err.empty()) {
		static struct inflate_state st;
		isal_inflate_init(&st);
		st.crc_flag = wrap == IGZIP_ZLIB ? ISAL_ZLIB : ISAL_GZIP;
		st.next_in = out; st.avail_in = (uint32_t) clen; st.next_out = dec; st.avail_out = (uint32_t) (len + 4096);
		int ir = -99;
		f = guard::call([&] { ir = isal_inflate_stateless(&st); });
		if (f.faulted) err = "isal_inflate_stateless: " + f.describe();
		else if (ir != ISAL_DECOMP_OK || st.total_out != len) err = fmt("verifier: isal_inflate_stateless returned %d after %u of %zu bytes on a stream whose trailer is correct", ir, st.total_out, len);
		else if (st.crc != (uint32_t) (wrap == IGZIP_ZLIB ? ad : cr)) err = fmt("verifier: state.crc %08x, expected %08lx", st.crc, wrap == IGZIP_ZLIB ? ad : cr);
		else if (memcmp(dec, in, len)) err = "decoded bytes differ from the input";
	}
	cleanup();
	PBT_CHECK(err.empty(), "checksum:huge-update", "%s: %s", where.c_str(), err.c_str());
	c.nontrivial = true;
	c.label(wrap == IGZIP_ZLIB ? "zlib" : "gzip");
	if (c.want_sample) c.sample = fmt("{\"bytes\":%zu,\"wrapper\":\"%s\",\"level\":%d,\"compressed\":%zu}", len, wrap == IGZIP_ZLIB ? "zlib" : "gzip", level, clen);
}
static void sweep_huge_update(SweepSink &s) {
	s.emit({1, 0, 1}) && s.emit({0, 1, 0});
}

int main(int argc, char **argv) {
	refcrc::self_test();
	std::vector<Sub> subs = {
		{"producer", body_producer, 40, 3, nullptr, "gzip/zlib(+NO_HDR) streams from one-shot and streaming compression with generated chunkings: trailer == zlib crc32/adler32 of the input and length mod 2^32; non-trivial: non-empty input"},
		{"verifier_exhaustive", body_exhaustive, 64, 2, nullptr, "small wrapped stream (ISA-L-, zlib- or grammar-made, <= 300 bytes) x crc_flag {GZIP, ZLIB, *_NO_HDR_VER} x chunking {one call, 1-byte chunks, two chunks} x decode kernel: every single-bit flip, every truncation, a byte substitution at every offset; if ISA-L reports success the trailer actually present must match the CRC/Adler and length of the bytes actually delivered (positions from the reference decoder) and state.crc must equal it; non-trivial: a corruption that changes the delivered bytes or hits the trailer"},
		{"huge_update", body_huge_update, 4, 0, sweep_huge_update, "2^28 + {1, 4096, 65535, 1 MiB + 123} bytes compressed in one isal_deflate_stateless call and expanded in one isal_inflate_stateless call (zlib and gzip): trailer == zlib's adler32/crc32 of the input, verifier accepts, state.crc equal, bytes equal"},
		{"verifier_sampled", body_sampled, 64, 3, nullptr, "streams up to 6000 bytes: call boundary on every trailer byte (valid and corrupted trailer), 60 sampled flips/substitutions/truncations with generated chunkings"},
	};
	return pbt_main(argc, argv, "C11", subs);
}
