// C09 - any k surviving fragments recover the data; matrix inversion is exact
#include "kern.h"
#include "ref_gf.h"
#include <algorithm>
#include <fstream>
#include <sstream>
extern "C" {
#include "erasure_code.h"
}
using namespace pbt;

// ---------------------------------------------------------------- gf_invert_matrix
static void gen_matrix(Tape &t, int n, std::vector<uint8_t> &m, std::string &shape) {
	uint64_t seed = t.bits64();
	auto rnd = [&](uint64_t i) { return (uint8_t) (mix64(seed + i) >> 19); };
	m.assign((size_t) n * n, 0);
	int kind = (int) t.range(0, 6);
	switch (kind) {
	case 0: shape = "random"; for (size_t i = 0; i < m.size(); i++) m[i] = rnd(i); break;
	case 1: { // rank-deficient by construction: A = B*C with inner dimension r < n
		shape = "rank-deficient(B*C)";
		int r = n > 1 ? (int) t.range(0, n - 1) : 0;
		std::vector<uint8_t> B((size_t) n * r), C((size_t) r * n);
		for (size_t i = 0; i < B.size(); i++) B[i] = rnd(i);
		for (size_t i = 0; i < C.size(); i++) C[i] = rnd(100000 + i);
		for (int i = 0; i < n; i++) for (int j = 0; j < n; j++) { uint8_t s = 0; for (int x = 0; x < r; x++) s ^= refgf::mul(B[i * r + x], C[x * n + j]); m[i * n + j] = s; }
		break;
	}
	case 2: { // a row that is a linear combination of two others
		shape = "dependent-row";
		for (size_t i = 0; i < m.size(); i++) m[i] = rnd(i);
		if (n >= 3) {
			int a = (int) t.range(0, n - 1), b = (int) t.range(0, n - 1), d = (int) t.range(0, n - 1);
			if (a != d && b != d) for (int j = 0; j < n; j++) m[d * n + j] = refgf::mul(rnd(7), m[a * n + j]) ^ refgf::mul(rnd(8), m[b * n + j]);
		}
		break;
	}
	case 3: { // row-permuted upper triangular with non-zero diagonal: regular, needs pivot swaps
		shape = "permuted-triangular";
		std::vector<uint8_t> tri((size_t) n * n, 0);
		for (int i = 0; i < n; i++) for (int j = i; j < n; j++) tri[i * n + j] = (i == j) ? (uint8_t) (1 + rnd(i * n + j) % 255) : rnd(i * n + j);
		std::vector<std::pair<uint32_t, int>> keys;
		for (int i = 0; i < n; i++) keys.push_back({(uint32_t) mix64(seed * 3 + i), i});
		std::sort(keys.begin(), keys.end());
		for (int i = 0; i < n; i++) memcpy(&m[(size_t) i * n], &tri[(size_t) keys[i].second * n], n);
		break;
	}
	case 4: { // zero diagonal, regular (cyclic shift of a diagonal matrix plus noise above)
		shape = "zero-diagonal";
		for (int i = 0; i < n; i++) m[i * n + (i + 1) % n] = (uint8_t) (1 + rnd(i) % 255);
		break;
	}
	case 5: { // first non-zero of column 0 only in the last row
		shape = "pivot-in-last-row";
		for (size_t i = 0; i < m.size(); i++) m[i] = rnd(i);
		for (int i = 0; i < n - 1; i++) m[i * n] = 0;
		break;
	}
	default: { // sparse 0/1
		shape = "sparse01";
		for (size_t i = 0; i < m.size(); i++) m[i] = (rnd(i) & 3) == 0;
		break;
	}
	}
	shape += fmt("#%d", kind);
}

static void body_invert(Tape &t, Ctx &c) {
	int n = (int) (t.coin() ? t.range(1, 12) : t.range(1, 128));
	std::vector<uint8_t> m;
	std::string shape;
	gen_matrix(t, n, m, shape);
	c.fpmix(n);
	for (uint8_t v : m) c.fpmix(v);
	int rk = refgf::rank(m, n);
	guard::Buf in = guard::alloc_copy(m.data(), m.size(), guard::END, "in_mat");
	guard::Buf out = guard::alloc((size_t) n * n, guard::END, "out_mat");
	int rc = 0;
	guard::Fault f = guard::call([&] { rc = gf_invert_matrix(in.p, out.p, n); });
	PBT_CHECK(!f.faulted, "invert", "gf_invert_matrix(n=%d,%s): %s", n, shape.c_str(), f.describe().c_str());
	PBT_CHECK(guard::canaries_ok(in) && guard::canaries_ok(out), "invert", "gf_invert_matrix(n=%d) wrote outside its n*n matrices", n);
	if (rk < n) {
		PBT_CHECK(rc != 0, "invert", "gf_invert_matrix(n=%d,%s) returned 0 for a singular matrix (reference rank %d)", n, shape.c_str(), rk);
		c.label("singular");
	} else {
		PBT_CHECK(rc == 0, "invert", "gf_invert_matrix(n=%d,%s) returned %d for a non-singular matrix", n, shape.c_str(), rc);
		std::vector<uint8_t> o(out.p, out.p + (size_t) n * n);
		std::vector<uint8_t> prod = refgf::matmul(m, o, n);
		for (int i = 0; i < n; i++) for (int j = 0; j < n; j++)
			PBT_CHECK(prod[i * n + j] == (i == j), "invert", "gf_invert_matrix(n=%d,%s): (in x out)[%d][%d] = %u, not the identity", n, shape.c_str(), i, j, prod[i * n + j]);
		c.label("regular");
	}
	c.label(shape.substr(0, shape.find('#')));
	c.nontrivial = n >= 4;
	if (c.want_sample) c.sample = fmt("{\"n\":%d,\"shape\":%s,\"reference_rank\":%d,\"rc\":%d}", n, jstr(shape).c_str(), rk, rc);
}

// ---------------------------------------------------------------- generators: documented formulas
// The exponent convention is read from the header's comment so that a change of the documentation or of the
// code is detected: "2^{i*(j-k)}" -> first parity row all ones; "2^{i*(j-k+1)}" -> first parity row 1,2,4,...
static int doc_rs_row_offset() {
	static int cached = -100;
	if (cached != -100) return cached;
	std::ifstream f(std::string(VERIF_REPO_PATH) + "/include/erasure_code.h");
	std::stringstream ss;
	ss << f.rdbuf();
	std::string s = ss.str();
	size_t fn = s.find("gf_gen_rs_matrix(unsigned char *a, int m, int k);");
	size_t p = fn == std::string::npos ? fn : s.rfind("constructed as 2^{", fn);
	cached = -1; // unknown
	if (p != std::string::npos) {
		std::string e = s.substr(p + 18, s.find('}', p) - p - 18);
		e.erase(std::remove(e.begin(), e.end(), ' '), e.end());
		if (e == "i*(j-k)") cached = 0;
		else if (e == "i*(j-k+1)") cached = 1;
	}
	return cached;
}
static bool rs_safe(int m, int k) {
	int p = m - k;
	if (k < 1 || p < 0 || m > 255) return false;
	return k <= 3 || (k == 4 && m <= 25) || (k == 5 && m <= 10) || (k <= 21 && p == 4) || p <= 3;
}

static void check_formula(bool cauchy, int m, int k, const uint8_t *a) {
	const char *who = cauchy ? "gf_gen_cauchy1_matrix" : "gf_gen_rs_matrix";
	int off = doc_rs_row_offset();
	for (int i = 0; i < k; i++) for (int j = 0; j < k; j++)
		PBT_CHECK(a[i * k + j] == (i == j), cauchy ? "cauchy_formula" : "rs_formula", "%s(m=%d,k=%d): top block is not the identity at [%d][%d]", who, m, k, i, j);
	for (int i = k; i < m; i++) for (int j = 0; j < k; j++) {
		if (cauchy) {
			uint8_t want = refgf::inv((uint8_t) (i ^ j));
			PBT_CHECK(a[i * k + j] == want, "cauchy_formula", "%s(m=%d,k=%d)[%d][%d] = %u, documented 1/(i+j) over GF(2^8) = %u", who, m, k, i, j, a[i * k + j], want);
		} else {
			PBT_CHECK(off >= 0, "rs_formula_doc", "cannot interpret the documented exponent for gf_gen_rs_matrix in include/erasure_code.h");
			uint8_t want = refgf::pow2((unsigned) (j * (i - k + off)) % 255);
			PBT_CHECK(a[i * k + j] == want, "rs_formula", "%s(m=%d,k=%d)[%d][%d] = %u, documented 2^{i*(j-k%s)} (column %d, row %d) = %u", who, m, k, i, j, a[i * k + j], off ? "+1" : "", j, i, want);
		}
	}
}

static void body_formula(Tape &t, Ctx &c) {
	bool cauchy = t.coin();
	int m = (int) (t.coin() ? t.range(1, 24) : t.range(1, cauchy ? 256 : 255));
	int k = (int) t.range(1, m);
	c.fpmix(cauchy); c.fpmix(m); c.fpmix(k);
	guard::Buf a = guard::alloc((size_t) m * k, guard::END, "matrix");
	guard::Fault f = guard::call([&] { if (cauchy) gf_gen_cauchy1_matrix(a.p, m, k); else gf_gen_rs_matrix(a.p, m, k); });
	PBT_CHECK(!f.faulted, cauchy ? "cauchy_formula" : "rs_formula", "generator(m=%d,k=%d): %s", m, k, f.describe().c_str());
	PBT_CHECK(guard::canaries_ok(a), cauchy ? "cauchy_formula" : "rs_formula", "generator(m=%d,k=%d) wrote outside m*k bytes", m, k);
	check_formula(cauchy, m, k, a.p);
	c.nontrivial = m - k >= 2 && k >= 2;
	c.label(cauchy ? "cauchy" : "rs");
	if (c.want_sample) c.sample = fmt("{\"generator\":%s,\"m\":%d,\"k\":%d,\"first_parity_row\":%s}", cauchy ? "\"cauchy1\"" : "\"rs\"", m, k, m > k ? jhex(a.p + (size_t) k * k, k, 12).c_str() : "\"\"");
}
static void sweep_formula(SweepSink &s) { // exhaustive for m <= 20 (quick) / 40 (thorough)
	// tape: {coin cauchy, coin small, m-1, k-1}
	uint32_t mm = s.thorough() ? 40 : 20;
	for (uint32_t cy = 0; cy < 2; cy++)
		for (uint32_t m = 1; m <= mm; m++)
			for (uint32_t k = 1; k <= m; k++)
				if (!s.emit({cy, 1, m - 1 + (m <= 24 ? 0 : 0), k - 1})) return;
}

// ---------------------------------------------------------------- minors: every erasure pattern <=> every square minor
static bool minor_regular(const uint8_t *par, int kcols, const int *rows, const int *cols, int s) {
	std::vector<uint8_t> mm((size_t) s * s);
	for (int i = 0; i < s; i++) for (int j = 0; j < s; j++) mm[i * s + j] = par[(size_t) rows[i] * kcols + cols[j]];
	return refgf::rank(mm, s) == s;
}
// families of the documented safe table (rows = parity-row indices, cols = data columns)
struct Fam { const char *name; bool cauchy; int m, k, maxs; };
static const Fam FAMS[] = {
	{"rs m-k<=3 (k up to 252)", false, 255, 252, 3}, {"rs k<=3 (m up to 255)", false, 255, 3, 3}, {"rs k=4,m<=25", false, 25, 4, 4}, {"rs k=5,m<=10", false, 10, 5, 5},
	{"rs k<=21,m-k=4", false, 25, 21, 4}, {"cauchy m=255,k=252", true, 255, 252, 3}, {"cauchy m=256,k=3", true, 256, 3, 3}, {"cauchy m=32,k=20", true, 32, 20, 4}, {"cauchy m=14,k=7", true, 14, 7, 7}};
static const int NFAMS = sizeof(FAMS) / sizeof(FAMS[0]);

// tape {family, first column}: all column subsets whose smallest element is `first`, sizes 1..maxs, x all parity-row subsets of equal size
static void body_minors(Tape &t, Ctx &c) {
	int fi = (int) t.range(0, NFAMS - 1);
	const Fam &F = FAMS[fi];
	int first = (int) t.range(0, F.k - 1);
	int p = F.m - F.k;
	std::vector<uint8_t> a((size_t) F.m * F.k);
	if (F.cauchy) gf_gen_cauchy1_matrix(a.data(), F.m, F.k); else gf_gen_rs_matrix(a.data(), F.m, F.k);
	const uint8_t *par = a.data() + (size_t) F.k * F.k;
	c.fpmix(fi); c.fpmix(first);
	uint64_t count = 0;
	int cols[8], rows[8];
	// enumerate column subsets (first fixed) and row subsets by simple recursion via index vectors
	for (int s = 1; s <= F.maxs && s <= p && s <= F.k; s++) {
		std::vector<int> ci(s);
		ci[0] = first;
		for (int i = 1; i < s; i++) ci[i] = first + i;
		if (s > 1 && ci[s - 1] >= F.k) continue;
		while (true) {
			for (int i = 0; i < s; i++) cols[i] = ci[i];
			std::vector<int> ri(s);
			for (int i = 0; i < s; i++) ri[i] = i;
			while (true) {
				for (int i = 0; i < s; i++) rows[i] = ri[i];
				count++;
				if (!minor_regular(par, F.k, rows, cols, s)) {
					std::string rs, cs;
					for (int i = 0; i < s; i++) { rs += std::to_string(F.k + rows[i]) + " "; cs += std::to_string(cols[i]) + " "; }
					PBT_CHECK(false, F.cauchy ? "cauchy_minor" : "rs_minor", "%s: losing data blocks {%s} and decoding with parity rows {%s} gives a singular decode matrix (m=%d k=%d)", F.name, cs.c_str(), rs.c_str(), F.m, F.k);
				}
				int x = s - 1;
				while (x >= 0 && ri[x] == p - s + x) x--;
				if (x < 0) break;
				ri[x]++;
				for (int y = x + 1; y < s; y++) ri[y] = ri[y - 1] + 1;
			}
			int x = s - 1;
			while (x >= 1 && ci[x] == F.k - s + x) x--;
			if (x < 1) break;
			ci[x]++;
			for (int y = x + 1; y < s; y++) ci[y] = ci[y - 1] + 1;
		}
	}
	c.nontrivial = true;
	c.label(F.name);
	c.label(fmt("minors_checked_bucket=%d", count > 100000 ? 3 : count > 1000 ? 2 : 1));
	if (c.want_sample) c.sample = fmt("{\"family\":%s,\"first_erased_column\":%d,\"minors_checked\":%llu}", jstr(F.name).c_str(), first, (unsigned long long) count);
}
static void sweep_minors(SweepSink &s) {
	for (uint32_t fi = 0; fi < (uint32_t) NFAMS; fi++) {
		// the two 2.6M-minor families are enumerated completely only in the thorough tier; quick takes every 6th first column
		bool big = false; // cheap enough to enumerate completely in both tiers
		for (uint32_t first = 0; first < (uint32_t) FAMS[fi].k; first++) {
			if (big && !s.thorough() && first % 6 != 0) continue;
			if (!s.emit({fi, first})) return;
		}
	}
}

// ---------------------------------------------------------------- end to end: encode, erase, invert with the library, recover
static void run_recover(bool cauchy, int m, int k, const std::vector<int> &erased, size_t len, uint64_t dseed, Ctx &c, bool data_level) {
	const char *key = cauchy ? "cauchy_recover" : "rs_recover";
	int p = m - k, ne = (int) erased.size();
	std::vector<uint8_t> enc((size_t) m * k);
	if (cauchy) gf_gen_cauchy1_matrix(enc.data(), m, k); else gf_gen_rs_matrix(enc.data(), m, k);
	std::vector<char> lost(m, 0);
	for (int e : erased) lost[e] = 1;
	std::vector<int> surv;
	for (int i = 0; i < m && (int) surv.size() < k; i++) if (!lost[i]) surv.push_back(i);
	if ((int) surv.size() < k) throw Skip("more than m-k erasures");
	std::vector<uint8_t> b((size_t) k * k), bsave;
	for (int i = 0; i < k; i++) memcpy(&b[(size_t) i * k], &enc[(size_t) surv[i] * k], k);
	bsave = b;
	std::vector<uint8_t> d((size_t) k * k);
	int rc = gf_invert_matrix(b.data(), d.data(), k);
	std::string es;
	for (int e : erased) es += std::to_string(e) + " ";
	PBT_CHECK(rc == 0, key, "%s matrix m=%d k=%d: decode matrix for erasures {%s} is reported singular by gf_invert_matrix (reference rank %d of %d)", cauchy ? "Cauchy" : "RS", m, k, es.c_str(), refgf::rank(bsave, k), k);
	std::vector<uint8_t> prod = refgf::matmul(bsave, d, k);
	for (int i = 0; i < k; i++) for (int j = 0; j < k; j++) PBT_CHECK(prod[i * k + j] == (i == j), "invert", "decode matrix inverse wrong (m=%d k=%d erasures {%s})", m, k, es.c_str());
	if (!data_level || ne == 0) return;
	// data level: encode with the library, drop the erased fragments, rebuild them from the first k survivors
	std::vector<std::vector<uint8_t>> frag(m, std::vector<uint8_t>(len));
	std::vector<uint8_t *> ptr(m);
	for (int i = 0; i < m; i++) { ptr[i] = frag[i].data(); if (i < k) kern::fill(ptr[i], len, dseed + i * 31, 0); }
	std::vector<uint8_t> tbl((size_t) 32 * k * (p > ne ? p : ne) + 32);
	if (p > 0) {
		ec_init_tables(k, p, &enc[(size_t) k * k], tbl.data());
		ec_encode_data((int) len, k, p, tbl.data(), ptr.data(), ptr.data() + k);
	}
	std::vector<uint8_t> dec((size_t) ne * k, 0);
	for (int x = 0; x < ne; x++) {
		int e = erased[x];
		if (e < k) memcpy(&dec[(size_t) x * k], &d[(size_t) e * k], k);
		else for (int i = 0; i < k; i++) { uint8_t s = 0; for (int j = 0; j < k; j++) s ^= gf_mul(d[(size_t) j * k + i], enc[(size_t) e * k + j]); dec[(size_t) x * k + i] = s; }
	}
	std::vector<std::vector<uint8_t>> rec(ne, std::vector<uint8_t>(len, 0xEE));
	std::vector<uint8_t *> sp(k), rp(ne);
	for (int i = 0; i < k; i++) sp[i] = ptr[surv[i]];
	for (int x = 0; x < ne; x++) rp[x] = rec[x].data();
	ec_init_tables(k, ne, dec.data(), tbl.data());
	ec_encode_data((int) len, k, ne, tbl.data(), sp.data(), rp.data());
	// the single-output form of the same computation (what a caller uses to rebuild one block): needs the 32-byte table form and len >= 32
	if (len >= 32) {
		std::vector<uint8_t> t32((size_t) 32 * k);
		ec_init_tables_base(k, 1, dec.data(), t32.data());
		std::vector<uint8_t> one(len + 64, 0xEE);
		gf_vect_dot_prod((int) len, k, t32.data(), sp.data(), one.data());
		PBT_CHECK(memcmp(one.data(), frag[erased[0]].data(), len) == 0, key, "%s m=%d k=%d: gf_vect_dot_prod does not reproduce fragment %d (len=%zu)", cauchy ? "Cauchy" : "RS", m, k, erased[0], len);
		for (size_t q = len; q < len + 64; q++) PBT_CHECK(one[q] == 0xEE, key, "gf_vect_dot_prod (len=%zu) wrote %zu bytes past the end of the block being rebuilt", len, q - len + 1);
	}
	for (int x = 0; x < ne; x++)
		PBT_CHECK(memcmp(rec[x].data(), frag[erased[x]].data(), len) == 0, key, "%s m=%d k=%d erasures {%s}: fragment %d is not reproduced bit for bit (len=%zu)", cauchy ? "Cauchy" : "RS", m, k, es.c_str(), erased[x], len);
}

static void body_recover(Tape &t, Ctx &c) {
	bool cauchy = t.coin();
	int m, k;
	if (cauchy) { m = (int) (t.coin() ? t.range(2, 24) : t.range(2, 256)); k = (int) t.range(1, m - 1); }
	else {
		// draw (m,k) from the documented safe table by construction
		switch (t.range(0, 4)) {
		case 0: k = (int) t.range(1, 3); m = (int) t.range(k + 1, t.coin() ? 40 : 255); break;
		case 1: k = 4; m = (int) t.range(5, 25); break;
		case 2: k = 5; m = (int) t.range(6, 10); break;
		case 3: k = (int) t.range(1, 21); m = k + 4; break;
		default: k = (int) (t.coin() ? t.range(1, 30) : t.range(1, 252)); m = k + (int) t.range(1, 3); break;
		}
		if (!rs_safe(m, k)) throw OracleBug("generator left the safe table");
	}
	int p = m - k;
	int ne = (int) t.range(1, p);
	if (ne > 16) ne = (int) t.range(1, 16);
	std::vector<int> erased;
	int bias = (int) t.range(0, 2); // 0 uniform, 1 data blocks first, 2 low indices
	while ((int) erased.size() < ne) {
		int e = bias == 1 ? (int) t.range(0, k - 1) : bias == 2 ? (int) t.range(0, (m - 1 < 2 * ne ? m - 1 : 2 * ne)) : (int) t.range(0, m - 1);
		while (std::find(erased.begin(), erased.end(), e) != erased.end()) e = (e + 1) % m; // linear probe: always terminates (ne <= m-k < m)
		erased.push_back(e);
	}
	std::sort(erased.begin(), erased.end());
	size_t len = (size_t) t.pick<uint32_t>({1, 16, 31, 64, 100, 257, 1024, 33, 95, 4096, 48, 63});
	if ((size_t) k * len * ne > 4000000) len = 64;
	uint64_t dseed = t.bits64();
	// the erased blocks are rebuilt by whatever table/encode kernels the dispatcher picks for a generated processor
	int lvi = (int) t.range(0, cpu::N_LEVELS - 1);
	const char *lvl = cpu::LEVEL_NAMES[lvi];
	kern::use_level(lvl);
	c.fpmix(cauchy); c.fpmix(m); c.fpmix(k); c.fpmix(len); c.fpmix(lvi);
	for (int e : erased) c.fpmix(e);
	run_recover(cauchy, m, k, erased, len, dseed, c, true);
	c.label(std::string("cpu=") + lvl);
	if (ne >= 7 && len >= 64) c.label("erasures>=7,len>=64");
	c.nontrivial = ne >= 2;
	c.label(cauchy ? "cauchy" : "rs");
	c.label(fmt("erasures=%d", ne > 4 ? 5 : ne));
	if (c.want_sample) { std::string es; for (int e : erased) es += (es.empty() ? "" : ",") + std::to_string(e);
		c.sample = fmt("{\"generator\":%s,\"m\":%d,\"k\":%d,\"erased\":[%s],\"len\":%zu,\"cpu\":\"%s\"}", cauchy ? "\"cauchy1\"" : "\"rs\"", m, k, es.c_str(), len, lvl); }
}

// exhaustive erasure patterns for small m: tape {cauchy, m, k}: every set of exactly m-k erased fragments
static void body_small(Tape &t, Ctx &c) {
	bool cauchy = t.coin();
	int m = (int) t.range(2, 16), k = (int) t.range(1, m - 1);
	if (!cauchy && !rs_safe(m, k)) throw Skip("(m,k) outside the documented safe table of gf_gen_rs_matrix");
	int p = m - k;
	c.fpmix(cauchy); c.fpmix(m); c.fpmix(k);
	std::vector<int> e(p);
	for (int i = 0; i < p; i++) e[i] = i;
	uint64_t n = 0;
	while (true) {
		run_recover(cauchy, m, k, e, 16, n, c, n % 64 == 0);
		n++;
		int x = p - 1;
		while (x >= 0 && e[x] == m - p + x) x--;
		if (x < 0) break;
		e[x]++;
		for (int y = x + 1; y < p; y++) e[y] = e[y - 1] + 1;
	}
	c.nontrivial = p >= 2;
	c.label(cauchy ? "cauchy" : "rs");
	if (c.want_sample) c.sample = fmt("{\"generator\":%s,\"m\":%d,\"k\":%d,\"erasure_patterns_enumerated\":%llu}", cauchy ? "\"cauchy1\"" : "\"rs\"", m, k, (unsigned long long) n);
}
static void sweep_small(SweepSink &s) {
	uint32_t mm = s.thorough() ? 16 : 15;
	for (uint32_t cy = 0; cy < 2; cy++)
		for (uint32_t m = 2; m <= mm; m++)
			for (uint32_t k = 1; k < m; k++)
				if (!s.emit({cy, m - 2, k - 1})) return;
}

int main(int argc, char **argv) {
	std::vector<Sub> subs = {
		{"formula", body_formula, 4, 4, sweep_formula, "generator output == identity top + documented formula (RS exponent convention parsed from the header comment, Cauchy 1/(i^j)); non-trivial: m-k>=2,k>=2"},
		{"minors", body_minors, 2, 0, sweep_minors, "every square minor (erased data columns x chosen parity rows) of the generated matrices is regular by reference elimination; one case = all minors whose smallest erased column is fixed"},
		{"small_exhaustive", body_small, 3, 0, sweep_small, "every set of exactly m-k erasures for small m: gf_invert_matrix succeeds, product is identity, every 64th pattern also recovered at data level"},
		{"invert", body_invert, 12, 30, nullptr, "gf_invert_matrix returns 0 iff reference rank == n; in x out == I; shapes: random, rank-deficient by construction, dependent row, permuted triangular, zero diagonal, pivot in last row, sparse; non-trivial: n>=4"},
		{"recover", body_recover, 36, 30, nullptr, "encode with ec_encode_data, erase a generated pattern (<= m-k), invert the survivor matrix with the library, re-encode and compare bit for bit; (m,k) for RS drawn from the documented safe table; non-trivial: >=2 erasures"},
	};
	return pbt_main(argc, argv, "C09", subs);
}
