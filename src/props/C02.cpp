// C02 - decompression reproduces every valid stream exactly, whoever produced it
#include "streams.h"
using namespace pbt;

using streams::Built;
using streams::build;

static void body(Tape &t, Ctx &c) {
	Built b;
	build(t, b);
	// decode options
	static const int FLAGS[3][3] = {{ISAL_DEFLATE, ISAL_DEFLATE, ISAL_DEFLATE}, {ISAL_GZIP, ISAL_GZIP_NO_HDR, ISAL_GZIP_NO_HDR_VER}, {ISAL_ZLIB, ISAL_ZLIB_NO_HDR, ISAL_ZLIB_NO_HDR_VER}};
	int fsel = (int) t.range(0, 2);
	int crc_flag = FLAGS[b.wrapper][fsel];
	bool strip = b.wrapper && fsel > 0;
	bool reads_trailer = b.wrapper && fsel != 1;
	int api = (int) t.pick<uint32_t>({2, 0, 1, 2});
	const char *lv = cpu::LEVEL_NAMES[t.pick<uint32_t>({11, 0, 1, 6, 4, 8, 10})];
	int hist_bits = 0;
	if (t.coin()) { int need = 1; while ((1u << need) < b.max_dist) need++; hist_bits = (int) t.range(need, 15); }
	size_t ngarbage = t.coin() ? (size_t) t.range(1, 24) : 0;
	uint64_t gseed = t.bits64();
	igzc::Sched in = igzc::decode_sched(t, b.stream.size(), b.stream.size() / 2000 + 1), out = igzc::decode_sched(t, b.data.size(), b.data.size() / 2000 + 1);

	std::vector<uint8_t> input(b.stream.begin() + (strip ? b.hdr : 0), b.stream.end());
	size_t end_pos = input.size() - (reads_trailer ? 0 : b.trl);
	for (size_t i = 0; i < ngarbage; i++) input.push_back((uint8_t) (mix64(gseed + i) >> 13));

	c.fpmix(mix64(b.stream.size()) ^ mix64(b.data.size() * 31)); for (size_t i = 0; i < b.stream.size() && i < 64; i++) c.fpmix(b.stream[i]);
	c.fpmix(crc_flag * 100 + api * 10 + hist_bits); c.fpmix(mix64((uint64_t) (uintptr_t) lv)); c.fpmix(in.mode * 7 + in.param); c.fpmix(out.mode * 7 + out.param); c.fpmix(ngarbage);

	kern::use_level(lv);
	igz::InfOpts io;
	io.crc_flag = crc_flag;
	io.hist_bits = hist_bits;
	io.stateless = api == 0;
	igz::Inflater inf(io);
	std::string key = std::string("inflate:") + (api == 0 ? "stateless" : "stateful");
	std::string where = fmt("%s, wrapper %d (%d optional gzip fields), crc_flag %d, %s, hist_bits %d, cpu %s, %zu-byte stream -> %zu bytes, %zu garbage bytes after it", b.src.c_str(), b.wrapper, b.gz_optional, crc_flag,
	                        api == 0 ? "isal_inflate_stateless" : api == 1 ? "one isal_inflate call" : "streaming", hist_bits, lv, b.stream.size(), b.data.size(), ngarbage);
	int last_rc = 0;
	if (api <= 1) {
		igz::CallInfo ci = inf.call(input.data(), input.size(), b.data.size() + 64);
		PBT_CHECK(!ci.faulted, key + ":fault", "%s: %s", where.c_str(), ci.problem.c_str());
		PBT_CHECK(ci.problem.empty(), key + ":counters", "%s: %s", where.c_str(), ci.problem.c_str());
		last_rc = ci.rc;
		// the stateful API may legitimately need another call to drain its internal buffer
		int extra = 0;
		while (api == 1 && ci.rc == 0 && !inf.finished() && extra < 64) {
			ci = inf.call(nullptr, 0, b.data.size() + 64);
			PBT_CHECK(!ci.faulted && ci.problem.empty(), key + ":fault", "%s: %s", where.c_str(), ci.problem.c_str());
			last_rc = ci.rc;
			if (ci.consumed + ci.produced == 0) break;
			extra++;
		}
	} else {
		size_t pos = 0;
		int noprog = 0;
		in.mode = in.mode == 0 ? 1 : in.mode;
		uint64_t bound = 4096 + 8 * (input.size() / (in.param ? in.param : 1) + b.data.size() / (out.param ? out.param : 1)) + input.size();
		while (!inf.finished()) {
			size_t add = 0;
			if (pos < input.size()) { add = in.next(input.size() - pos); if (add > input.size() - pos) add = input.size() - pos; }
			size_t cap = out.mode == 0 ? b.data.size() + 64 : out.next(b.data.size() + 64);
			igz::CallInfo ci = inf.call(input.data() + pos, add, cap);
			pos += add;
			PBT_CHECK(!ci.faulted, key + ":fault", "%s, in %s out %s: %s", where.c_str(), in.text().c_str(), out.text().c_str(), ci.problem.c_str());
			PBT_CHECK(ci.problem.empty(), key + ":counters", "%s, in %s out %s: call %llu: %s", where.c_str(), in.text().c_str(), out.text().c_str(), (unsigned long long) inf.calls, ci.problem.c_str());
			last_rc = ci.rc;
			PBT_CHECK(ci.rc == ISAL_DECOMP_OK, key + ":rc", "%s, in %s out %s: isal_inflate returned %d on call %llu of a valid stream (block_state %d, %zu of %zu input bytes handed over)", where.c_str(), in.text().c_str(), out.text().c_str(), ci.rc,
			          (unsigned long long) inf.calls, (int) inf.s->block_state, pos, input.size());
			if (ci.consumed + ci.produced == 0 && add == 0 && pos >= input.size()) { if (++noprog > 3) break; } else noprog = 0;
			if (inf.calls > bound) throw Skip("inconclusive: call bound");
		}
	}
	PBT_CHECK(last_rc == ISAL_DECOMP_OK, key + ":rc", "%s: returned %d for a valid stream", where.c_str(), last_rc);
	PBT_CHECK(inf.finished(), key + ":state", "%s: block_state %d instead of ISAL_BLOCK_FINISH after the whole stream was supplied (in %s out %s)", where.c_str(), (int) inf.s->block_state, in.text().c_str(), out.text().c_str());
	PBT_CHECK(inf.out == b.data, key + ":data", "%s: output (%zu bytes) differs from the reference decoder's (%zu bytes)%s", where.c_str(), inf.out.size(), b.data.size(),
	          inf.out.size() == b.data.size() ? fmt(" first difference at %zu", (size_t) (std::mismatch(inf.out.begin(), inf.out.end(), b.data.begin()).first - inf.out.begin())).c_str() : "");
	PBT_CHECK(inf.s->total_out == b.data.size(), key + ":counters", "%s: total_out %u, %zu bytes delivered", where.c_str(), inf.s->total_out, b.data.size());
	if (crc_flag != ISAL_DEFLATE) {
		uint32_t want = b.wrapper == 1 ? (uint32_t) crc32(0, b.data.data(), (uInt) b.data.size()) : (uint32_t) adler32(1, b.data.data(), (uInt) b.data.size());
		PBT_CHECK(inf.s->crc == want, key + ":crc", "%s: state.crc %08x, reference checksum of the delivered bytes %08x", where.c_str(), inf.s->crc, want);
	}
	size_t rep = api == 0 ? inf.total_consumed : inf.reported_pos();
	PBT_CHECK(rep == end_pos, key + ":position", "%s: reported input position %zu (taken %zu, %d bits buffered), the stream ends at %zu (in %s out %s)", where.c_str(), rep, inf.total_consumed, inf.s->read_in_length, end_pos, in.text().c_str(), out.text().c_str());
	c.nontrivial = b.labels.count("has-match") > 0;
	for (auto &l : b.labels) c.label(l);
	c.label(std::string("kernel=") + cpu::resolved_name("decode_huffman_code_block_stateless"));
	c.label(api == 0 ? "api=stateless" : api == 1 ? "api=single-call" : "api=streaming");
	c.label(fmt("crc_flag=%d", crc_flag));
	c.label("src=" + b.src.substr(0, b.src.find('(')));
	if (b.gz_optional >= 2) c.label("gzip>=2-optional-fields");
	if (c.want_sample) c.sample = fmt("{\"source\":%s,\"wrapper\":%d,\"crc_flag\":%d,\"api\":%d,\"cpu\":\"%s\",\"hist_bits\":%d,\"stream_bytes\":%zu,\"data_bytes\":%zu,\"garbage\":%zu,\"in\":\"%s\",\"out\":\"%s\",\"stream_head\":%s}", jstr(b.src).c_str(), b.wrapper,
	                                    crc_flag, api, lv, hist_bits, b.stream.size(), b.data.size(), ngarbage, in.text().c_str(), out.text().c_str(), jhex(b.stream.data(), b.stream.size(), 24).c_str());
}

int main(int argc, char **argv) {
	refcrc::self_test();
	const char *rule = "case = valid stream from the deflate grammar generator (any block order, arbitrary complete prefix codes up to 15 bits, all symbols, dist up to 32768), from zlib (levels, strategies, "
	                   "windowBits, memLevel, flush points) or from ISA-L, wrapped raw/gzip(optional FEXTRA/FNAME/FCOMMENT/FHCRC)/zlib, decoded with every crc_flag x {stateless, single call, streaming chunks} "
	                   "x decode kernel {base,_01,_04} x hist_bits, with garbage appended; oracle: bytes known by construction (== zlib == reference decoder), FINISH state, crc field, reported input "
	                   "position == true end of stream; non-trivial: stream has a Huffman-coded match";
	std::vector<Sub> subs = {{"valid_streams", body, 96, 1, nullptr, rule}};
	return pbt_main(argc, argv, "C02", subs);
}
