// C12 - GF(2^8) scalar arithmetic and multiplication tables are a correct field.
// Exhaustive enumeration of the finite domains against carry-less multiply mod 0x11D.
#include "pbt.h"
#include "guard.h"
#include "kern.h"
#include "ref_gf.h"
extern "C" {
#include "erasure_code.h"
void ec_init_tables_gfni(int k, int rows, unsigned char *a, unsigned char *g_tbls);
int gf_vect_mul_sse(int, unsigned char *, void *, void *);
int gf_vect_mul_avx(int, unsigned char *, void *, void *);
void gf_vect_mad_sse(int, int, int, unsigned char *, unsigned char *, unsigned char *);
void gf_vect_mad_avx(int, int, int, unsigned char *, unsigned char *, unsigned char *);
void gf_vect_mad_avx2(int, int, int, unsigned char *, unsigned char *, unsigned char *);
void gf_vect_mad_avx512(int, int, int, unsigned char *, unsigned char *, unsigned char *);
}
using namespace pbt;

static void body_mul(Tape &t, Ctx &c) {
	uint8_t a = (uint8_t) t.range(0, 255), b = (uint8_t) t.range(0, 255);
	uint8_t got = gf_mul(a, b), want = refgf::mul_slow(a, b);
	c.nontrivial = a && b;
	c.fpmix(a * 256 + b);
	if (c.want_sample) c.sample = fmt("{\"a\":%u,\"b\":%u,\"gf_mul\":%u}", a, b, got);
	PBT_CHECK(got == want, "gf_mul", "gf_mul(%u,%u)=%u, carry-less product mod 0x11D is %u", a, b, got, want);
	PBT_CHECK(gf_mul(b, a) == got, "gf_mul", "gf_mul not commutative at (%u,%u)", a, b);
	if (a == 0 || b == 0) PBT_CHECK(got == 0, "gf_mul", "0 not absorbing at (%u,%u)", a, b);
	// associativity / distributivity with every third operand (2^24 triples overall)
	for (int x = 0; x < 256; x++) {
		PBT_CHECK(gf_mul(got, (uint8_t) x) == gf_mul(a, gf_mul(b, (uint8_t) x)), "gf_mul", "not associative at (%u,%u,%u)", a, b, x);
		PBT_CHECK(gf_mul(a, (uint8_t) (b ^ x)) == (uint8_t) (got ^ gf_mul(a, (uint8_t) x)), "gf_mul", "not distributive at (%u,%u,%u)", a, b, x);
	}
}
static void sweep_mul(SweepSink &s) {
	for (uint32_t a = 0; a < 256; a++)
		for (uint32_t b = 0; b < 256; b++)
			if (!s.emit({a, b})) return;
}

static void body_inv(Tape &t, Ctx &c) {
	uint8_t a = (uint8_t) t.range(0, 255);
	uint8_t iv = gf_inv(a);
	c.nontrivial = a != 0;
	c.fpmix(a);
	if (c.want_sample) c.sample = fmt("{\"a\":%u,\"gf_inv\":%u}", a, iv);
	if (a == 0) return; // inverse of 0 is not defined by the property
	PBT_CHECK(refgf::mul_slow(a, iv) == 1, "gf_inv", "a*inv(a) != 1 for a=%u (inv=%u)", a, iv);
	PBT_CHECK(gf_mul(a, iv) == 1, "gf_inv", "gf_mul(a,gf_inv(a)) != 1 for a=%u", a);
}
static void sweep_inv(SweepSink &s) {
	for (uint32_t a = 0; a < 256; a++)
		if (!s.emit({a})) return;
}

static void check_tbl32(const uint8_t *tbl, uint8_t cst, const char *who) {
	for (int i = 0; i < 16; i++) {
		PBT_CHECK(tbl[i] == refgf::mul_slow(cst, (uint8_t) i), "gf_table32", "%s: c=%u low-nibble entry %d is %u, want %u", who, cst, i, tbl[i], refgf::mul_slow(cst, (uint8_t) i));
		PBT_CHECK(tbl[16 + i] == refgf::mul_slow(cst, (uint8_t) (i << 4)), "gf_table32", "%s: c=%u high-nibble entry %d is %u, want %u", who, cst, i, tbl[16 + i], refgf::mul_slow(cst, (uint8_t) (i << 4)));
	}
	for (int x = 0; x < 256; x++)
		PBT_CHECK((tbl[x & 15] ^ tbl[16 + (x >> 4)]) == refgf::mul_slow(cst, (uint8_t) x), "gf_table32", "%s: table product c=%u x=%d wrong", who, cst, x);
}

static void body_tbl(Tape &t, Ctx &c) {
	uint8_t cst = (uint8_t) t.range(0, 255);
	c.nontrivial = cst > 1;
	c.fpmix(cst);
	guard::Buf tb = guard::alloc(32, guard::END, "tbl");
	guard::Fault f = guard::call([&] { gf_vect_mul_init(cst, tb.p); });
	PBT_CHECK(!f.faulted, "gf_table32", "gf_vect_mul_init(%u): %s", cst, f.describe().c_str());
	PBT_CHECK(guard::canaries_ok(tb), "gf_table32", "gf_vect_mul_init(%u) wrote outside its 32 bytes", cst);
	if (c.want_sample) c.sample = fmt("{\"c\":%u,\"tbl\":%s}", cst, jhex(tb.p, 32).c_str());
	check_tbl32(tb.p, cst, "gf_vect_mul_init");
	// "any table-driven product": the library's own consumers of this table, every byte value in both lanes positions next to varying neighbours
	{
		const int N = 1024;
		guard::Buf src = guard::alloc(N, guard::END, "src", 32, 0), dst = guard::alloc(N, guard::END, "dst", 32, 0);
		for (int x = 0; x < 256; x++) {
			src.p[2 * x] = (uint8_t) x; src.p[2 * x + 1] = (uint8_t) (mix64(x * 131 + cst) >> 17);
			src.p[512 + 2 * x] = (uint8_t) (mix64(x * 137 + cst) >> 23); src.p[512 + 2 * x + 1] = (uint8_t) x;
		}
		guard::set_readonly(src);
		typedef int (*mfn)(int, unsigned char *, void *, void *);
		static const struct { const char *n; mfn f; } V[] = {{"gf_vect_mul_base", (mfn) gf_vect_mul_base}, {"gf_vect_mul_sse", (mfn) gf_vect_mul_sse}, {"gf_vect_mul_avx", (mfn) gf_vect_mul_avx}, {"gf_vect_mul", (mfn) gf_vect_mul}};
		for (auto &v : V) {
			memset(dst.p, 0xEE, N);
			int rc = -99;
			f = guard::call([&] { rc = v.f(N, tb.p, src.p, dst.p); });
			PBT_CHECK(!f.faulted && rc == 0, "gf_table_product", "%s(c=%u): %s rc=%d", v.n, cst, f.describe().c_str(), rc);
			for (int i = 0; i < N; i++)
				PBT_CHECK(dst.p[i] == refgf::mul_slow(cst, src.p[i]), "gf_table_product", "%s: c=%u times %u (neighbours %u,%u) gives %u, the field product is %u", v.n, cst, src.p[i], i ? src.p[i - 1] : 0, i + 1 < N ? src.p[i + 1] : 0, dst.p[i], refgf::mul_slow(cst, src.p[i]));
		}
	}
	// ... and the multiply-accumulate consumers of the same 32-byte table (single source, zeroed accumulator: dest must become c * src),
	// with a length that exercises the overlapped tail of the vector kernels
	{
		const int N = 1024 - 1 - (int) (cst % 61);
		guard::Buf src = guard::alloc(N, guard::END, "src"), dst = guard::alloc(N, guard::END, "dst");
		for (int i = 0; i < N; i++) src.p[i] = (uint8_t) (i < 256 ? i : mix64(i * 131 + cst) >> 17);
		guard::set_readonly(src);
		typedef void (*madfn)(int, int, int, unsigned char *, unsigned char *, unsigned char *);
		static const struct { const char *n; madfn f; } MV[] = {{"gf_vect_mad_base", gf_vect_mad_base}, {"gf_vect_mad_sse", gf_vect_mad_sse}, {"gf_vect_mad_avx", gf_vect_mad_avx}, {"gf_vect_mad_avx2", gf_vect_mad_avx2}, {"gf_vect_mad_avx512", gf_vect_mad_avx512}, {"gf_vect_mad", gf_vect_mad}};
		for (auto &v : MV) {
			memset(dst.p, 0, N);
			f = guard::call([&] { v.f(N, 1, 0, tb.p, src.p, dst.p); });
			PBT_CHECK(!f.faulted, "gf_table_product", "%s(len %d, c=%u): %s", v.n, N, cst, f.describe().c_str());
			for (int i = 0; i < N; i++)
				PBT_CHECK(dst.p[i] == refgf::mul_slow(cst, src.p[i]), "gf_table_product", "%s (len %d): c=%u times %u at offset %d gives %u, the field product is %u", v.n, N, cst, src.p[i], i, dst.p[i], refgf::mul_slow(cst, src.p[i]));
		}
	}
	// GFNI 8-byte form
	guard::Buf g8 = guard::alloc(8, guard::END, "gfni_tbl");
	f = guard::call([&] { ec_init_tables_gfni(1, 1, &cst, g8.p); });
	PBT_CHECK(!f.faulted, "gf_table_gfni", "ec_init_tables_gfni: %s", f.describe().c_str());
	uint64_t A;
	memcpy(&A, g8.p, 8);
	for (int x = 0; x < 256; x++)
		PBT_CHECK(refgf::affine(A, (uint8_t) x) == refgf::mul_slow(cst, (uint8_t) x), "gf_table_gfni", "GFNI matrix for c=%u maps x=%d to %u, want %u", cst, x, refgf::affine(A, (uint8_t) x), refgf::mul_slow(cst, (uint8_t) x));
}
static void sweep_tbl(SweepSink &s) {
	for (uint32_t a = 0; a < 256; a++)
		if (!s.emit({a})) return;
}

// ec_init_tables{,_base} over whole coefficient matrices
static void body_init_tables(Tape &t, Ctx &c) {
	int k = (int) t.range(1, 40), rows = (int) t.range(1, 12);
	uint64_t seed = t.bits64();
	std::vector<uint8_t> a(k * rows);
	for (size_t i = 0; i < a.size(); i++) a[i] = (uint8_t) (mix64(seed + i) >> 13);
	c.nontrivial = k * rows >= 2;
	c.fpmix(k); c.fpmix(rows); c.fpmix(seed);
	if (c.want_sample) c.sample = fmt("{\"k\":%d,\"rows\":%d,\"coef\":%s}", k, rows, jhex(a.data(), a.size(), 16).c_str());
	guard::Buf ab = guard::alloc_copy(a.data(), a.size(), guard::END, "coef");
	guard::set_readonly(ab);
	guard::Buf tb = guard::alloc(32 * k * rows, guard::END, "g_tbls");
	guard::Fault f = guard::call([&] { ec_init_tables_base(k, rows, ab.p, tb.p); });
	PBT_CHECK(!f.faulted, "ec_init_tables", "ec_init_tables_base(k=%d,rows=%d): %s", k, rows, f.describe().c_str());
	PBT_CHECK(guard::canaries_ok(tb), "ec_init_tables", "ec_init_tables_base wrote outside 32*k*rows");
	for (int i = 0; i < k * rows; i++) check_tbl32(tb.p + 32 * i, a[i], "ec_init_tables_base");
	// the dispatched builder produces either the 32-byte or the 8-byte (GFNI) form - whichever the encoder selected for the same processor reads
	int lvi = (int) t.range(0, cpu::N_LEVELS - 1);
	const char *lv = cpu::LEVEL_NAMES[lvi];
	kern::use_level(lv);
	c.fpmix(lvi);
	guard::Buf td = guard::alloc(32 * k * rows, guard::END, "g_tbls_dispatched");
	memset(td.p, 0xEE, td.len);
	f = guard::call([&] { ec_init_tables(k, rows, ab.p, td.p); });
	PBT_CHECK(!f.faulted, "ec_init_tables", "ec_init_tables(k=%d,rows=%d): %s", k, rows, f.describe().c_str());
	PBT_CHECK(guard::canaries_ok(td), "ec_init_tables", "ec_init_tables wrote outside 32*k*rows");
	if (memcmp(td.p, tb.p, tb.len) != 0) {
		for (int i = 0; i < k * rows; i++) {
			uint64_t A;
			memcpy(&A, td.p + 8 * i, 8);
			for (int x = 0; x < 256; x++)
				PBT_CHECK(refgf::affine(A, (uint8_t) x) == refgf::mul_slow(a[i], (uint8_t) x), "ec_init_tables", "dispatched ec_init_tables: entry %d (c=%u) is neither the 32-byte nor a correct GFNI form", i, a[i]);
		}
		c.label("dispatched=gfni-form");
	} else c.label("dispatched=32-byte-form");
	// ... and the table-driven products through the encoder the same processor gets are the field products
	{
		const int len = 128;
		std::vector<guard::Buf> src, dst;
		std::vector<uint8_t *> sp(k), dp(rows);
		for (int j = 0; j < k; j++) { src.push_back(guard::alloc(len, guard::END, "src")); for (int b = 0; b < len; b++) src[j].p[b] = (uint8_t) (mix64(seed * 7 + j * 131 + b) >> 19); sp[j] = src[j].p; }
		for (int r = 0; r < rows; r++) { dst.push_back(guard::alloc(len, guard::END, "dest")); dp[r] = dst[r].p; }
		f = guard::call([&] { ec_encode_data(len, k, rows, td.p, sp.data(), dp.data()); });
		PBT_CHECK(!f.faulted, "ec_init_tables", "ec_encode_data with the dispatched tables (cpu %s): %s", lv, f.describe().c_str());
		for (int r = 0; r < rows; r++)
			for (int b = 0; b < len; b++) {
				uint8_t want = 0;
				for (int j = 0; j < k; j++) want ^= refgf::mul_slow(a[r * k + j], src[j].p[b]);
				PBT_CHECK(dst[r].p[b] == want, "ec_init_tables", "cpu %s: tables from %s fed to %s give %u for row %d byte %d, the field value is %u (table format and encoder do not match?)", lv, cpu::resolved_name("ec_init_tables").c_str(), cpu::resolved_name("ec_encode_data").c_str(), dst[r].p[b], r, b, want);
			}
		c.label(std::string("cpu=") + lv);
	}
}

int main(int argc, char **argv) {
	std::vector<Sub> subs = {
		{"mul_pairs", body_mul, 2, 0, sweep_mul, "all (a,b) in [0,255]^2 (x all third operands for associativity/distributivity); non-trivial: a!=0 and b!=0"},
		{"inv", body_inv, 1, 0, sweep_inv, "all a in [0,255]; non-trivial: a!=0"},
		{"tables", body_tbl, 1, 0, sweep_tbl, "all constants c: 32-byte table and GFNI matrix x all 256 inputs, and the table-driven products of gf_vect_mul{_base,_sse,_avx,dispatched} over all byte values; non-trivial: c>1"},
		{"init_tables", body_init_tables, 6, 1, nullptr, "random (k,rows,coefficients) through ec_init_tables_base and the dispatched ec_init_tables under a generated cpu level, then the table-driven products of the dispatched ec_encode_data for that level; non-trivial: >=2 coefficients"},
	};
	return pbt_main(argc, argv, "C12", subs);
}
