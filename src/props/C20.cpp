// C20 - zero detection is exact for every length, alignment and byte position
#include "kern.h"
extern "C" {
#include "mem_routines.h"
int mem_zero_detect_base(void *, size_t);
int mem_zero_detect_sse(void *, size_t);
int mem_zero_detect_avx(void *, size_t);
int mem_zero_detect_avx2(void *, size_t);
int mem_zero_detect_avx512(void *, size_t);
int noarch_isal_zero_detect(void *, size_t); // alias layer of assembly-less builds (renamed by tools/genmk.py)
}
using namespace pbt;
typedef int (*zfn)(void *, size_t);
struct Var { const char *name; zfn fn; const char *level; };
static const Var DIRECT[] = {{"mem_zero_detect_base", mem_zero_detect_base, "base"}, {"mem_zero_detect_sse", mem_zero_detect_sse, "sse"},
                             {"mem_zero_detect_avx", mem_zero_detect_avx, "avx"}, {"mem_zero_detect_avx2", mem_zero_detect_avx2, "avx2"},
                             {"mem_zero_detect_avx512", mem_zero_detect_avx512, "avx512"}, {"noarch_isal_zero_detect", noarch_isal_zero_detect, "base"}};
static const int NDIRECT = 6;

static void run_case(int vi, size_t len, const kern::Placement &pl, uint32_t posseed, Ctx &c) {
	zfn fn;
	std::string vname;
	if (vi < NDIRECT) {
		cpu::Config cfg;
		cpu::level_config(DIRECT[vi].level, cfg);
		if (!cpu::host_can_run(cfg)) throw Skip(std::string("host cannot execute ") + DIRECT[vi].name);
		fn = DIRECT[vi].fn;
		vname = DIRECT[vi].name;
	} else {
		const char *lv = cpu::LEVEL_NAMES[(vi - NDIRECT) % cpu::N_LEVELS];
		kern::use_level(lv);
		fn = (zfn) isal_zero_detect;
		vname = std::string("isal_zero_detect@") + lv;
	}
	c.fpmix(vi); c.fpmix(len); c.fpmix(pl.mode * 4096 + pl.off); c.fpmix(posseed);
	c.nontrivial = len >= 1;
	guard::Buf b = kern::alloc(len, pl, "region");
	memset(b.p, 0, len);
	// neighbours outside the region are the arena's non-zero canary bytes (or an inaccessible page)
	int r = 0;
	guard::Fault f = guard::call([&] { r = fn(b.p, len); });
	c.label(vi < NDIRECT ? vname : vname + "->" + cpu::resolved_name("isal_zero_detect"));
	std::string key = "zero_detect:" + vname.substr(0, vname.find('@'));
	PBT_CHECK(!f.faulted, key, "%s(len=%zu, %s) all-zero: %s", vname.c_str(), len, pl.desc().c_str(), f.describe().c_str());
	PBT_CHECK(r == 0, key, "%s(len=%zu, %s) returned %d for an all-zero region (non-zero neighbours outside)", vname.c_str(), len, pl.desc().c_str(), r);
	size_t npos = 0;
	static const uint8_t VALS[] = {1, 0x80, 0xFF};
	auto probe = [&](size_t pos, uint8_t val) {
		b.p[pos] = val;
		guard::Fault f2 = guard::call([&] { r = fn(b.p, len); });
		b.p[pos] = 0;
		PBT_CHECK(!f2.faulted, key, "%s(len=%zu, %s) byte %zu=0x%02x: %s", vname.c_str(), len, pl.desc().c_str(), pos, val, f2.describe().c_str());
		PBT_CHECK(r != 0, key, "%s(len=%zu, %s) returned 0 although byte %zu is 0x%02x", vname.c_str(), len, pl.desc().c_str(), pos, val);
		npos++;
	};
	if (len <= 1200) {
		for (size_t pos = 0; pos < len; pos++)
			for (uint8_t v : VALS) probe(pos, v);
	} else {
		size_t cand[8] = {0, 1, len - 1, len - 2, len / 2, (size_t) (mix64(posseed) % len), (size_t) (mix64(posseed + 1) % len), len - 1 - (size_t) (mix64(posseed + 2) % 300)};
		for (size_t pos : cand) probe(pos, (uint8_t) (1 + mix64(posseed + pos) % 255));
	}
	// densely non-zero regions (every chunk's OR mask saturated): still "non-zero", still no access outside
	if (len) {
		static const size_t TAILS[] = {0, 0, 16, 32, 64, 128, 256};
		static const char *KN[] = {"all-0xFF", "random non-zero", "zero except the last 16 bytes = 0xFF", "zero except the last 32 bytes = 0xFF", "zero except the last 64 bytes = 0xFF", "zero except the last 128 bytes = 0xFF", "zero except the last 256 bytes = 0xFF"};
		for (int kind = 0; kind < 7; kind++) {
			if (kind == 0) memset(b.p, 0xFF, len);
			else if (kind == 1) for (size_t i = 0; i < len; i++) b.p[i] = (uint8_t) (1 + mix64(posseed + i) % 255);
			else { if (TAILS[kind] > len) continue; memset(b.p, 0, len); memset(b.p + len - TAILS[kind], 0xFF, TAILS[kind]); }
			guard::Fault f3 = guard::call([&] { r = fn(b.p, len); });
			PBT_CHECK(!f3.faulted, key, "%s(len=%zu, %s) on a %s region: %s", vname.c_str(), len, pl.desc().c_str(), KN[kind], f3.describe().c_str());
			PBT_CHECK(r != 0, key, "%s(len=%zu, %s) returned 0 for a %s region", vname.c_str(), len, pl.desc().c_str(), KN[kind]);
		}
	}
	PBT_CHECK(guard::canaries_ok(b), key, "%s wrote around the region", vname.c_str());
	if (c.want_sample) c.sample = fmt("{\"variant\":%s,\"len\":%zu,\"placement\":%s,\"positions_probed\":%zu}", jstr(vname).c_str(), len, jstr(pl.desc()).c_str(), npos);
}

static void body(Tape &t, Ctx &c) {
	int vi = (int) t.range(0, NDIRECT + cpu::N_LEVELS - 1);
	size_t len = kern::decode_len(t, 1 << 20);
	kern::Placement pl = kern::decode_placement(t);
	uint32_t ps = t.raw();
	run_case(vi, len, pl, ps, c);
}
// sweep: tape = {variant, lenmode=1, len, placement mode, offset}
static void body_sweep(Tape &t, Ctx &c) {
	int vi = (int) t.range(0, NDIRECT + cpu::N_LEVELS - 1);
	size_t len = (size_t) t.range(0, 4096);
	kern::Placement pl = kern::decode_placement(t);
	run_case(vi, len, pl, 0, c);
}
static void sweep(SweepSink &s) {
	uint32_t maxlen = s.thorough() ? 1100 : 600;
	for (uint32_t len = 0; len <= maxlen; len++)
		for (uint32_t vi = 0; vi < (uint32_t) NDIRECT + 1; vi++) { // the kernels (incl. the noarch alias) + dispatcher at the first level slot rotated below
			uint32_t v = vi < (uint32_t) NDIRECT ? vi : NDIRECT + (len % cpu::N_LEVELS);
			if (!s.emit({v, len, 0, 0})) return;
			if (!s.emit({v, len, 1, 0})) return;
			if (!s.emit({v, len, 2, (len * 7 + vi) % 64})) return;
			if (s.thorough() && !s.emit({v, len, 3, (len * 13 + vi) % 64})) return;
		}
}

// ---------------------------------------------------------------- regions of 4 GiB and more (len is a size_t)
// One zero tile is mapped over and over (memfd: 2 MiB of memory for > 4 GiB of address space); the last two pages are private so that a
// single non-zero byte can be planted beyond the 4 GiB mark.
#include <sys/mman.h>
#include <sys/syscall.h>
#include <unistd.h>
static const size_t ZTILE = 2u << 20, ZN = 2052; // 4 GiB + 8 MiB
static uint8_t *g_zero;
static uint8_t *zero_map() {
	if (g_zero) return g_zero;
	int fd = (int) syscall(SYS_memfd_create, "verif-zero", 0);
	if (fd < 0 || ftruncate(fd, ZTILE)) throw Skip("memfd_create unavailable");
	uint8_t *base = (uint8_t *) mmap(0, ZTILE * ZN + 8192, PROT_NONE, MAP_PRIVATE | MAP_ANONYMOUS | MAP_NORESERVE, -1, 0);
	if (base == MAP_FAILED) throw Skip("cannot reserve the address space");
	for (size_t i = 0; i < ZN; i++)
		if (mmap(base + i * ZTILE, ZTILE, PROT_READ, MAP_SHARED | MAP_FIXED, fd, 0) == MAP_FAILED) throw Skip("cannot map tile");
	close(fd);
	if (mmap(base + ZN * ZTILE, 8192, PROT_READ | PROT_WRITE, MAP_PRIVATE | MAP_ANONYMOUS | MAP_FIXED, -1, 0) == MAP_FAILED) throw Skip("cannot map tail");
	return g_zero = base;
}
// tape {variant, start offset selector, end selector, position selector}
static void body_huge(Tape &t, Ctx &c) {
	int vi = (int) t.range(0, NDIRECT + cpu::N_LEVELS - 1);
	zfn fn;
	std::string vname;
	if (vi < NDIRECT) {
		cpu::Config cfg;
		cpu::level_config(DIRECT[vi].level, cfg);
		if (!cpu::host_can_run(cfg)) throw Skip(std::string("host cannot execute ") + DIRECT[vi].name);
		fn = DIRECT[vi].fn; vname = DIRECT[vi].name;
	} else { const char *lv = cpu::LEVEL_NAMES[(vi - NDIRECT) % cpu::N_LEVELS]; kern::use_level(lv); fn = (zfn) isal_zero_detect; vname = std::string("isal_zero_detect@") + lv; }
	uint8_t *base = zero_map();
	size_t total = ZTILE * ZN + 8192;
	size_t start = (size_t) t.pick<uint32_t>({0, 1, 63, 64, 65, 127, 4095});
	size_t end = total - (size_t) t.pick<uint32_t>({0, 1, 64, 4097});        // region = [start, end), always longer than 4 GiB
	size_t len = end - start;
	int pm = (int) t.range(0, 3); // 0 all zero, 1 last byte, 2 a byte in the private tail beyond 4 GiB, 3 first byte of the tail
	size_t tail0 = ZTILE * ZN;
	size_t pos = pm == 1 ? end - 1 : pm == 2 ? tail0 + (size_t) t.range(0, 4000) : tail0;
	c.fpmix(vi); c.fpmix(start); c.fpmix(mix64(end)); c.fpmix(pm); c.fpmix(pos);
	memset(base + tail0, 0, 8192);
	if (pm) base[pos] = (uint8_t) t.pick<uint32_t>({1, 0x80, 0xFF});
	int r = -1;
	guard::Fault f = guard::call([&] { r = fn(base + start, len); });
	if (pm) base[pos] = 0;
	std::string key = "zero_detect:" + vname.substr(0, vname.find('@'));
	PBT_CHECK(!f.faulted, key, "%s(len=%zu = 4 GiB + %zu): %s", vname.c_str(), len, len - (1ull << 32), f.describe().c_str());
	if (pm) PBT_CHECK(r != 0, key, "%s(len=%zu = 4 GiB + %zu, start offset %zu) returned 0 although byte %zu (beyond the 4 GiB mark) is non-zero", vname.c_str(), len, len - (1ull << 32), start, pos - start);
	else PBT_CHECK(r == 0, key, "%s(len=%zu = 4 GiB + %zu) returned %d for an all-zero region", vname.c_str(), len, len - (1ull << 32), r);
	c.nontrivial = true;
	c.label(vi < NDIRECT ? vname : vname + "->" + cpu::resolved_name("isal_zero_detect"));
	if (c.want_sample) c.sample = fmt("{\"variant\":%s,\"len\":%zu,\"start_offset\":%zu,\"nonzero_at\":%lld}", jstr(vname).c_str(), len, start, pm ? (long long) (pos - start) : -1ll);
}
static void sweep_huge(SweepSink &s) {
	// every kernel and three dispatcher levels, all-zero and one planted byte; (the base kernel takes about a second per 4 GiB)
	static const uint32_t V[] = {0, 1, 2, 3, 4, 5, NDIRECT + 11, NDIRECT + 6, NDIRECT + 4, NDIRECT + 1};
	for (uint32_t i = 0; i < 10; i++) {
		if (!s.emit({V[i], i % 7, i % 4, 0})) return;
		if (!s.emit({V[i], (i + 3) % 7, (i + 1) % 4, 1 + i % 3, i * 37, i % 3})) return;
	}
}

int main(int argc, char **argv) {
	const char *rule = "case = (variant or dispatcher@cpu-level, len, placement); each case probes the all-zero region and every byte position x {0x01,0x80,0xFF} "
	                   "(8 sampled positions when len > 1200), then an all-0xFF region, a random non-zero region and zero regions whose last 16/32/64/128/256 bytes are 0xFF (saturated final chunk); neighbours outside the region are non-zero canaries or an inaccessible page; non-trivial: len >= 1";
	std::vector<Sub> subs = {
		{"sweep", body_sweep, 5, 0, sweep, rule},
		{"random", body, 8, 1, nullptr, rule},
		{"huge_region", body_huge, 6, 0.00002, sweep_huge, "regions longer than 4 GiB (a zero tile mapped repeatedly): every kernel and the dispatcher under several cpu levels, all-zero and with one non-zero byte planted beyond the 4 GiB mark"},
	};
	return pbt_main(argc, argv, "C20", subs);
}
