// C06 - decompression of arbitrary bytes is safe, terminates and never falsely succeeds
#include "streams.h"
using namespace pbt;

struct Run { int rc = 0; bool finished = false; std::vector<uint8_t> out; uint32_t crc = 0; bool faulted = false; std::string problem; uint64_t calls = 0; bool livelock = false; std::string ll; bool inconclusive = false; };

// decode `in` with a call schedule; checks per-call safety (guard pages, canaries, counters on success codes), documented codes, progress
static Run run_inflate(const std::vector<uint8_t> &in, int crc_flag, bool stateless, int mode, uint32_t pin, uint32_t pout, uint64_t seed, size_t big, const uint8_t *dict = nullptr, size_t dict_len = 0) {
	igz::InfOpts io;
	io.crc_flag = crc_flag;
	io.stateless = stateless;
	io.dict = dict; io.dict_len = dict_len;
	igz::Inflater inf(io);
	Run r;
	size_t pos = 0;
	int idle = 0;
	std::vector<uint8_t> snap;
	uint64_t limit = 300 + 4 * (in.size() / (pin ? pin : 1) + big / (pout ? pout : 1));
	for (uint64_t i = 0;; i++) {
		size_t add, cap;
		if (stateless || mode == 0) { add = in.size() - pos; cap = big; }
		else if (mode == 1) { add = pin; cap = pout; }
		else { uint64_t h = mix64(seed + i); add = 1 + h % pin; cap = (h >> 20) % (pout + 1); }
		if (add > in.size() - pos) add = in.size() - pos;
		if (cap > big) cap = big;
		if (idle >= 2) cap = big; // supplying more output space must then make progress (or the input is simply incomplete)
		igz::CallInfo ci = inf.call(in.data() + pos, add, cap);
		pos += add;
		if (ci.faulted || !ci.problem.empty()) { r.faulted = true; r.problem = ci.problem; break; }
		r.rc = ci.rc;
		if (ci.rc != 0 || inf.finished() || stateless) break;
		if (ci.consumed + ci.produced == 0) {
			bool had_in = !inf.pending.empty(), had_out = cap > 0;
			if (had_in && had_out) {
				// input and output space available, return code 0, nothing consumed, nothing produced: deterministic repeat = livelock
				std::vector<uint8_t> now((uint8_t *) inf.s, (uint8_t *) inf.s + sizeof(*inf.s));
				memset(now.data() + offsetof(struct inflate_state, next_in), 0, sizeof(void *));
				memset(now.data() + offsetof(struct inflate_state, next_out), 0, sizeof(void *));
				if (!snap.empty() && now == snap && add == 0 && cap == big) { r.livelock = true; r.ll = fmt("call %llu: %zu input bytes and %zu output bytes available, rc 0, no progress, state unchanged (block_state %d)", (unsigned long long) inf.calls, inf.pending.size(), cap, (int) inf.s->block_state); break; }
				snap.swap(now);
			}
			if (add == 0 && pos >= in.size()) { if (++idle > 3) break; } else if (add == 0) idle++;
		} else { idle = 0; snap.clear(); }
		if (i > limit) { r.inconclusive = true; break; }
	}
	r.finished = inf.finished();
	r.out = inf.out;
	r.crc = inf.s->crc;
	r.calls = inf.calls;
	guard::release_all();
	return r;
}

static bool documented(int rc, bool stateless) {
	if (rc == 0 || rc == ISAL_NEED_DICT) return true;
	if (rc <= -1 && rc >= -6) return true;
	if (stateless && (rc == ISAL_END_INPUT || rc == ISAL_OUT_OVERFLOW)) return true;
	return false;
}

// clauses (i)-(v) for an arbitrary byte string `m` presented with `crc_flag`
static void judge(const std::vector<uint8_t> &m, int crc_flag, bool stateless, const Run &r, size_t big, const std::string &what, Ctx &c, bool *succ = nullptr) {
	PBT_CHECK(!r.faulted, "inflate-arbitrary:memory", "%s: %s", what.c_str(), r.problem.c_str());
	PBT_CHECK(documented(r.rc, stateless), "inflate-arbitrary:code", "%s: returned undocumented status %d", what.c_str(), r.rc);
	PBT_CHECK(!r.livelock, "inflate-arbitrary:livelock", "%s: %s", what.c_str(), r.ll.c_str());
	if (r.inconclusive) c.label("inconclusive(call-bound)");
	bool gz = crc_flag == ISAL_GZIP, zl = crc_flag == ISAL_ZLIB;
	bool success = r.finished && r.rc == ISAL_DECOMP_OK;
	size_t start = 0;
	bool hdr_ok = true;
	std::string hdr_why;
	if (gz) {
		refhdr::Parsed ph;
		int pr = refhdr::parse_gzip(m.data(), m.size(), ph);
		if (pr != 1) { hdr_ok = false; hdr_why = fmt("gzip header not parseable (%d)", pr); }
		else if (!ph.hcrc_ok) { hdr_ok = false; hdr_why = "header CRC16 mismatch"; }
		else start = ph.len;
	} else if (zl) {
		if (!(m.size() >= 2 && (m[0] & 15) == 8 && ((m[0] << 8) | m[1]) % 31 == 0)) { hdr_ok = false; hdr_why = "invalid zlib CMF/FLG"; }
		else if (m[1] & 0x20) { hdr_ok = false; hdr_why = "FDICT set"; }
		else start = 2;
	}
	if (success) {
		PBT_CHECK(hdr_ok, "inflate-arbitrary:false-success", "%s: reported completion although %s", what.c_str(), hdr_why.c_str());
		refinf::Options ro;
		ro.lenient = true;
		ro.max_out = std::max(big, r.out.size()) + 64;
		refinf::Result rr = refinf::inflate(m.data() + start, m.size() - start, ro);
		PBT_CHECK(rr.st == refinf::OK, "inflate-arbitrary:false-success", "%s: reported completion but the stream is not decodable under RFC 1951: %s at bit %llu", what.c_str(), refinf::status_name(rr.st), (unsigned long long) rr.err_bit);
		PBT_CHECK(rr.out == r.out, "inflate-arbitrary:false-success", "%s: reported completion with %zu bytes that differ from the reference decoder's %zu bytes", what.c_str(), r.out.size(), rr.out.size());
		bool ver = gz || zl || crc_flag == ISAL_GZIP_NO_HDR_VER || crc_flag == ISAL_ZLIB_NO_HDR_VER;
		if (ver) {
			bool g = gz || crc_flag == ISAL_GZIP_NO_HDR_VER;
			size_t tpos = start + rr.end_byte(), tl = g ? 8 : 4;
			PBT_CHECK(tpos + tl <= m.size(), "inflate-arbitrary:false-success", "%s: reported completion although the trailer is incomplete", what.c_str());
			const uint8_t *tp = m.data() + tpos;
			if (g) {
				uint32_t crc = (uint32_t) crc32(0, r.out.data(), (uInt) r.out.size());
				uint32_t tc = tp[0] | tp[1] << 8 | tp[2] << 16 | (uint32_t) tp[3] << 24, tlv = tp[4] | tp[5] << 8 | tp[6] << 16 | (uint32_t) tp[7] << 24;
				PBT_CHECK(tc == crc && tlv == (uint32_t) r.out.size(), "inflate-arbitrary:false-success", "%s: reported completion but trailer crc/len %08x/%u != %08x/%zu of the delivered bytes", what.c_str(), tc, tlv, crc, r.out.size());
			} else {
				uint32_t ad = (uint32_t) adler32(1, r.out.data(), (uInt) r.out.size());
				uint32_t ta = (uint32_t) tp[0] << 24 | tp[1] << 16 | tp[2] << 8 | tp[3];
				PBT_CHECK(ta == ad, "inflate-arbitrary:false-success", "%s: reported completion but trailer adler %08x != %08x of the delivered bytes", what.c_str(), ta, ad);
			}
		}
		if (succ) *succ = true;
	}
	// (v) whatever zlib finishes on a strictly valid stream, ISA-L must finish with the same bytes (raw deflate part only: the in-tree oracle)
	if (crc_flag == ISAL_DEFLATE) {
		igz::ZOut z = igz::zlib_inflate(m.data(), m.size(), -15, big + 64);
		if (z.rc == Z_STREAM_END && z.out.size() <= big) {
			// zlib accepted: the stream is strictly valid by zlib's rules; cross-check with the strict reference
			refinf::Options so;
			so.max_out = big + 64;
			refinf::Result rs = refinf::inflate(m.data(), m.size(), so);
			if (rs.st != refinf::OK || rs.out != z.out) throw OracleBug(fmt("zlib accepts a stream the strict reference decoder rejects (%s)", refinf::status_name(rs.st)));
			PBT_CHECK(success && r.out == z.out, "inflate-arbitrary:valid-rejected", "%s: zlib and the reference decoder accept this stream (%zu bytes out) but ISA-L ends with rc %d finished %d (%zu bytes)", what.c_str(), z.out.size(), r.rc, (int) r.finished, r.out.size());
		}
	}
}

static int pick_flag_any(Tape &t, int wrapper, bool &strip) {
	static const int FLAGS[3][3] = {{ISAL_DEFLATE, ISAL_DEFLATE, ISAL_DEFLATE}, {ISAL_GZIP, ISAL_GZIP_NO_HDR, ISAL_GZIP_NO_HDR_VER}, {ISAL_ZLIB, ISAL_ZLIB_NO_HDR, ISAL_ZLIB_NO_HDR_VER}};
	int fsel = (int) t.pick<uint32_t>({0, 0, 1, 2});
	strip = wrapper && fsel > 0;
	return FLAGS[wrapper][fsel];
}

// (1) mutants of valid streams: every truncation, every single-bit flip, a substitution at every offset (small streams)
static void body_mutants(Tape &t, Ctx &c) {
	streams::Built b;
	// one case in four: ISA-L's own level-0 output (default tables -> the decoder's pre-generated-header shortcut), every bit of that header flipped
	if (t.range(0, 3) == 0) streams::build(t, b, 900, true, 2, 0);
	else streams::build(t, b, 200, true);
	if (b.stream.size() > 500 || b.data.size() > 6000) throw Skip("stream too large for the exhaustive mutation sweep");
	bool strip;
	int crc_flag = pick_flag_any(t, b.wrapper, strip);
	bool stateless = t.range(0, 2) == 0;
	int mode = stateless ? 0 : (int) t.range(0, 2);
	static const uint32_t P[] = {1, 2, 7, 8, 9, 16, 64};
	uint32_t pin = P[t.range(0, 6)], pout = P[t.range(0, 6)] * (uint32_t) t.pick<uint32_t>({1, 1, 8});
	const char *lv = cpu::LEVEL_NAMES[t.pick<uint32_t>({11, 0, 1, 6})];
	uint64_t vseed = t.bits64();
	kern::use_level(lv);
	std::vector<uint8_t> base(b.stream.begin() + (strip ? b.hdr : 0), b.stream.end());
	c.fpmix(mix64(base.size())); for (uint8_t x : base) c.fpmix(x); c.fpmix(crc_flag * 10 + mode); c.fpmix(stateless); c.fpmix(pin * 1000 + pout); c.fpmix(mix64((uint64_t) (uintptr_t) lv));
	size_t big = b.data.size() * 3 + 1024;
	std::string cfg = fmt("%s (%zu bytes -> %zu), crc_flag %d, %s in %u out %u, cpu %s", b.src.c_str(), base.size(), b.data.size(), crc_flag, stateless ? "stateless" : mode == 0 ? "one call" : mode == 1 ? "const chunks" : "random chunks", pin, pout, lv);
	size_t nmut = 0, nsucc = 0, past_hdr = 0;
	std::vector<uint8_t> m;
	auto one = [&](const std::string &what) {
		Run r = run_inflate(m, crc_flag, stateless, mode, pin, pout, vseed + nmut, big);
		bool s = false;
		judge(m, crc_flag, stateless, r, big, cfg + ", " + what, c, &s);
		nmut++; nsucc += s;
		if (r.rc != ISAL_INVALID_WRAPPER && r.rc != ISAL_UNSUPPORTED_METHOD && !r.out.empty()) past_hdr++;
	};
	for (size_t bit = 0; bit < base.size() * 8; bit++) { m = base; m[bit / 8] ^= (uint8_t) (1u << (bit % 8)); one(fmt("bit %zu of byte %zu flipped", bit % 8, bit / 8)); }
	for (size_t len = 0; len < base.size(); len++) { m.assign(base.begin(), base.begin() + len); one(fmt("truncated to %zu bytes", len)); }
	for (size_t off = 0; off < base.size(); off++) { m = base; uint8_t nv = (uint8_t) (mix64(vseed * 3 + off) >> 9); if (nv == m[off]) nv ^= 0xA5; m[off] = nv; one(fmt("byte %zu replaced by %02x", off, nv)); }
	c.nontrivial = past_hdr > 0;
	c.label(fmt("crc_flag=%d", crc_flag));
	c.label("src=" + b.src.substr(0, b.src.find('(')));
	c.label(stateless ? "api=stateless" : "api=stateful");
	if (c.want_sample) c.sample = fmt("{\"stream\":%s,\"source\":%s,\"crc_flag\":%d,\"stateless\":%d,\"mode\":%d,\"in\":%u,\"out\":%u,\"cpu\":\"%s\",\"mutants\":%zu,\"still_accepted\":%zu}", jhex(base.data(), base.size(), 40).c_str(), jstr(b.src).c_str(), crc_flag, (int) stateless, mode, pin, pout, lv, nmut, nsucc);
}

// (2) grammar-level single faults: documented error class
static void body_faults(Tape &t, Ctx &c) {
	int fault = (int) t.range(1, dgen::N_FAULTS - 1);
	dgen::Params p;
	p.fault = fault;
	p.allow_big = false;
	p.soft_max_out = 3000;
	dgen::Stream s;
	dgen::generate(t, p, s);
	if (!s.fault_applied) throw Skip(std::string("fault not applicable to the generated program: ") + dgen::fault_name(fault));
	std::vector<uint8_t> in = s.bytes;
	for (int i = 0; i < 24; i++) in.push_back(0); // >= 16 padding bytes after the fault
	bool stateless = t.coin();
	int mode = stateless ? 0 : (int) t.range(0, 2);
	static const uint32_t P[] = {1, 2, 7, 8, 9, 16, 64, 4096};
	uint32_t pin = P[t.range(0, 7)], pout = P[t.range(0, 7)];
	const char *lv = cpu::LEVEL_NAMES[t.pick<uint32_t>({11, 0, 1, 6})];
	uint64_t vseed = t.bits64();
	kern::use_level(lv);
	c.fpmix(fault); c.fpmix(mix64(in.size())); for (size_t i = 0; i < in.size() && i < 120; i++) c.fpmix(in[i]); c.fpmix(stateless * 10 + mode); c.fpmix(pin * 10000 + pout); c.fpmix(mix64((uint64_t) (uintptr_t) lv));
	// the reference decoder must see exactly the injected fault (strict mode), otherwise the generator is wrong
	refinf::Options so;
	so.max_out = 1 << 20;
	refinf::Result rs = refinf::inflate(in.data(), in.size(), so);
	bool grey = fault == dgen::F_LL_INCOMPLETE || fault == dgen::F_CL_INCOMPLETE || fault == dgen::F_D_UNASSIGNED;
	if (rs.st != dgen::fault_status(fault)) throw OracleBug(fmt("fault %s: the reference decoder reports %s instead of %s", dgen::fault_name(fault), refinf::status_name(rs.st), refinf::status_name(dgen::fault_status(fault))));
	size_t big = s.data.size() + 70000;
	Run r = run_inflate(in, ISAL_DEFLATE, stateless, mode, pin, pout, vseed, big);
	std::string what = fmt("fault '%s' in a %zu-byte stream (+24 padding), %s in %u out %u, cpu %s", dgen::fault_name(fault), s.bytes.size(), stateless ? "stateless" : mode == 0 ? "one call" : "chunked", pin, pout, lv);
	judge(in, ISAL_DEFLATE, stateless, r, big, what, c);
	if (!grey) {
		int want = refinf::isal_class(dgen::fault_status(fault));
		PBT_CHECK(!(r.finished && r.rc == 0), "inflate-arbitrary:false-success", "%s: reported completion", what.c_str());
		PBT_CHECK(r.rc == want || r.inconclusive, "inflate-arbitrary:error-class:" + std::string(dgen::fault_name(fault)), "%s: returned %d, the documented class for this fault is %d (%s)", what.c_str(), r.rc, want,
		          want == -1 ? "ISAL_INVALID_BLOCK" : want == -2 ? "ISAL_INVALID_SYMBOL" : "ISAL_INVALID_LOOKBACK");
	} else c.label(fmt("grey-zone:%s->rc=%d", dgen::fault_name(fault), r.rc));
	c.nontrivial = true;
	c.label(std::string("fault=") + dgen::fault_name(fault));
	if (c.want_sample) c.sample = fmt("{\"fault\":\"%s\",\"stream\":%s,\"stateless\":%d,\"in\":%u,\"out\":%u,\"cpu\":\"%s\",\"rc\":%d}", dgen::fault_name(fault), jhex(in.data(), in.size(), 40).c_str(), (int) stateless, pin, pout, lv, r.rc);
}

// wrapper-level single faults
static void body_wrapper_faults(Tape &t, Ctx &c) {
	streams::Built b;
	streams::build(t, b, 800, true);
	int wf = (int) t.range(0, 7);
	std::vector<uint8_t> in;
	int crc_flag, want;
	std::string name;
	// rebuild the wrapper with one fault
	std::vector<uint8_t> defl(b.stream.begin() + b.hdr, b.stream.begin() + b.hdr + b.defl);
	bool gz = wf <= 4 ? true : false;
	if (wf == 7) gz = t.coin();
	if (gz) {
		refhdr::Gzip g;
		int nopt;
		streams::gen_gzip_hdr(t, g, nopt);
		bool bad_hcrc = false;
		want = ISAL_INCORRECT_CHECKSUM;
		switch (wf) {
		case 0: g.id1 = (uint8_t) t.pick<uint32_t>({0x1e, 0x00, 0x8b}); name = "bad gzip magic"; want = ISAL_INVALID_WRAPPER; break;
		case 1: g.id2 = (uint8_t) t.pick<uint32_t>({0x8a, 0x1f, 0x00}); name = "bad gzip magic"; want = ISAL_INVALID_WRAPPER; break;
		case 2: { uint32_t r = t.raw(); g.cm = (r & 1) ? (uint8_t) "\x00\x07\x09\xff\x18\x78\x88\xf8"[(r >> 1) % 8] : (uint8_t) (r >> 8); if (g.cm == 8) g.cm = 0x28; name = "gzip CM != 8"; want = ISAL_UNSUPPORTED_METHOD; break; }
		case 3: g.hcrc = true; bad_hcrc = true; name = "bad gzip header CRC16"; break;
		default: name = "wrong gzip CRC32/ISIZE"; break;
		}
		in = refhdr::write_gzip(g, bad_hcrc);
		in.insert(in.end(), defl.begin(), defl.end());
		size_t tp = in.size();
		refhdr::gzip_trailer(in, b.data);
		if (wf == 4 || wf == 7) in[tp + t.range(0, 7)] ^= (uint8_t) (1u << t.range(0, 7));
		crc_flag = ISAL_GZIP;
	} else {
		refhdr::Zlib z;
		z.cinfo = 7;
		z.flevel = (int) t.range(0, 3);
		bool badf = false;
		want = ISAL_INCORRECT_CHECKSUM;
		if (wf == 5) { z.cm = (int) t.pick<uint32_t>({0, 7, 9, 15}); name = "zlib CM != 8"; want = ISAL_UNSUPPORTED_METHOD; }
		else if (wf == 6) { badf = true; name = "bad zlib FCHECK"; }
		else name = "wrong Adler-32";
		in = refhdr::write_zlib(z, badf);
		in.insert(in.end(), defl.begin(), defl.end());
		size_t tp = in.size();
		refhdr::zlib_trailer(in, b.data);
		if (wf == 7) in[tp + t.range(0, 3)] ^= (uint8_t) (1u << t.range(0, 7));
		crc_flag = ISAL_ZLIB;
	}
	for (int i = 0; i < 24; i++) in.push_back(0);
	bool stateless = t.coin();
	int mode = stateless ? 0 : (int) t.range(0, 2);
	static const uint32_t P[] = {1, 2, 7, 8, 9, 16, 64, 4096};
	uint32_t pin = P[t.range(0, 7)], pout = P[t.range(0, 7)];
	const char *lv = cpu::LEVEL_NAMES[t.pick<uint32_t>({11, 0, 1, 6})];
	kern::use_level(lv);
	c.fpmix(wf); c.fpmix(mix64(in.size())); for (size_t i = 0; i < in.size() && i < 120; i++) c.fpmix(in[i]); c.fpmix(stateless * 10 + mode); c.fpmix(pin * 10000 + pout); c.fpmix(mix64((uint64_t) (uintptr_t) lv));
	size_t big = b.data.size() + 4096;
	Run r = run_inflate(in, crc_flag, stateless, mode, pin, pout, t.bits64(), big);
	std::string what = fmt("%s (%zu-byte stream), %s in %u out %u, cpu %s", name.c_str(), in.size(), stateless ? "stateless" : mode == 0 ? "one call" : "chunked", pin, pout, lv);
	judge(in, crc_flag, stateless, r, big, what, c);
	PBT_CHECK(!(r.finished && r.rc == 0), "inflate-arbitrary:false-success", "%s: reported completion", what.c_str());
	PBT_CHECK(r.rc == want || r.inconclusive, "inflate-arbitrary:error-class:" + name, "%s: returned %d, the documented class is %d", what.c_str(), r.rc, want);
	c.nontrivial = true;
	c.label("fault=" + name);
	if (c.want_sample) c.sample = fmt("{\"fault\":%s,\"stream\":%s,\"stateless\":%d,\"in\":%u,\"out\":%u,\"cpu\":\"%s\",\"rc\":%d}", jstr(name).c_str(), jhex(in.data(), in.size(), 32).c_str(), (int) stateless, pin, pout, lv, r.rc);
}

// (3) arbitrary bytes and heavily damaged streams
static void body_random(Tape &t, Ctx &c) {
	std::vector<uint8_t> in;
	int kind = (int) t.range(0, 3);
	int wrapper = 0;
	if (kind == 0) { size_t n = (size_t) t.range(0, 600); uint64_t s = t.bits64(); for (size_t i = 0; i < n; i++) in.push_back((uint8_t) (mix64(s + i) >> 11)); wrapper = (int) t.range(0, 2); }
	else {
		streams::Built b;
		streams::build(t, b, 20000);
		in = b.stream;
		wrapper = b.wrapper;
		int nm = (int) t.range(1, kind == 1 ? 2 : 20);
		uint64_t s = t.bits64();
		for (int i = 0; i < nm && !in.empty(); i++) {
			uint64_t h = mix64(s + i);
			size_t off = h % in.size();
			switch ((h >> 40) % 5) {
			case 0: in[off] ^= (uint8_t) (1u << ((h >> 32) % 8)); break;
			case 1: in[off] = (uint8_t) (h >> 24); break;
			case 2: in.resize(off); break;
			case 3: in.insert(in.begin() + off, (uint8_t) (h >> 24)); break;
			default: in.erase(in.begin() + off); break;
			}
		}
	}
	bool strip;
	int crc_flag = pick_flag_any(t, wrapper, strip);
	if (kind != 0 && strip) {
		// keep the header in place half of the time: a header presented to a NO_HDR mode is just more arbitrary bytes
		if (t.coin() && in.size() > 12) in.erase(in.begin(), in.begin() + (wrapper == 1 ? 10 : 2));
	}
	bool stateless = t.range(0, 2) == 0;
	int mode = stateless ? 0 : (int) t.range(0, 2);
	static const uint32_t P[] = {1, 2, 7, 8, 9, 16, 64, 300, 4096, 65536};
	uint32_t pin = P[t.range(0, 9)], pout = P[t.range(0, 9)];
	if (in.size() / pin > 4000) pin = (uint32_t) (in.size() / 4000 + 1);
	const char *lv = cpu::LEVEL_NAMES[t.pick<uint32_t>({11, 0, 1, 6})];
	kern::use_level(lv);
	size_t big = t.coin() ? in.size() * 4 + 4096 : (size_t) t.range(0, 300); // small output limits on purpose
	if (big / pout > 4000) pout = (uint32_t) (big / 4000 + 1);
	c.fpmix(kind); c.fpmix(mix64(in.size())); for (size_t i = 0; i < in.size() && i < 150; i++) c.fpmix(in[i]); c.fpmix(crc_flag * 100 + stateless * 10 + mode); c.fpmix(pin * 100000 + pout); c.fpmix(big); c.fpmix(mix64((uint64_t) (uintptr_t) lv));
	Run r = run_inflate(in, crc_flag, stateless, mode, pin, pout, t.bits64(), big);
	std::string what = fmt("%s %zu bytes, crc_flag %d, %s in %u out %u, output limit %zu, cpu %s", kind == 0 ? "random" : "damaged stream of", in.size(), crc_flag, stateless ? "stateless" : mode == 0 ? "one call" : "chunked", pin, pout, big, lv);
	PBT_CHECK(!r.faulted, "inflate-arbitrary:memory", "%s: %s", what.c_str(), r.problem.c_str());
	PBT_CHECK(documented(r.rc, stateless), "inflate-arbitrary:code", "%s: undocumented status %d", what.c_str(), r.rc);
	PBT_CHECK(!r.livelock, "inflate-arbitrary:livelock", "%s: %s", what.c_str(), r.ll.c_str());
	if (big >= in.size() * 4 + 4096) judge(in, crc_flag, stateless, r, big, what, c);
	c.nontrivial = !r.out.empty() || r.rc == ISAL_INVALID_SYMBOL || r.rc == ISAL_INVALID_LOOKBACK;
	c.label(fmt("rc=%d", r.rc));
	c.label(kind == 0 ? "random-bytes" : "damaged-stream");
	if (c.want_sample) c.sample = fmt("{\"bytes\":%s,\"len\":%zu,\"crc_flag\":%d,\"stateless\":%d,\"in\":%u,\"out\":%u,\"output_limit\":%zu,\"cpu\":\"%s\",\"rc\":%d,\"delivered\":%zu}", jhex(in.data(), in.size(), 32).c_str(), in.size(), crc_flag, (int) stateless, pin, pout, big, lv, r.rc, r.out.size());
}

int main(int argc, char **argv) {
	refcrc::self_test();
	std::vector<Sub> subs = {
		{"mutants_exhaustive", body_mutants, 96, 2, nullptr, "small valid stream x wrapper mode x API x chunking x kernel: EVERY truncation, EVERY single-bit flip and a substitution at every offset; no fault, documented code, no livelock, completion only if the lenient RFC 1951 reference decodes the same bytes (and the trailer matches in verifying modes), and zlib-accepted raw streams must be accepted with equal bytes; non-trivial: some mutant got past the wrapper and produced output"},
		{"grammar_faults", body_faults, 96, 6, nullptr, "deflate grammar program with exactly one injected fault (LEN/NLEN, BTYPE 3, HLIT/HDIST > 29, over-subscribed code sets, repeat without predecessor / overflow, no end-of-block code, distance symbols 30/31, literal 286/287, distance beyond output, over-subscription confined to the 15-bit level, an unassigned long distance code actually used; incomplete sets as grey zone) + 24 padding bytes: documented error class"},
		{"wrapper_faults", body_wrapper_faults, 128, 2, nullptr, "one wrapper fault (magic, CM, header CRC16, FCHECK, CRC32/ISIZE, Adler-32): INVALID_WRAPPER / UNSUPPORTED_METHOD / INCORRECT_CHECKSUM"},
		{"arbitrary", body_random, 128, 6, nullptr, "random byte strings and multiply damaged streams (flip/replace/truncate/insert/delete) with small output limits and all call schedules; non-trivial: produced output or reached symbol decoding"},
	};
	return pbt_main(argc, argv, "C06", subs);
}
