// C15 - results depend only on arguments: reentrant, thread-safe, deterministic
// This harness is linked against libisal_v.so so that the library's own writable pages can be identified,
// snapshotted and made read-only after the one-time implementation selection.
#include "igzcheck.h"
#include "datagen.h"
#include "workload.h"
#include <pthread.h>
#include <sys/mman.h>
#include <sys/wait.h>
#include <unistd.h>
#include <fstream>
#include <sstream>
#include <atomic>
#include <link.h>
using namespace pbt;

struct Region { uintptr_t lo, hi; };
static std::vector<Region> g_lib_rw;
static bool g_protected = false;

// the library's writable memory = its PT_LOAD segments with PF_W (file-backed .data and .bss), taken from the program headers
static int phdr_cb(struct dl_phdr_info *info, size_t, void *) {
	if (!info->dlpi_name || !strstr(info->dlpi_name, "libisal_v.so")) return 0;
	for (int i = 0; i < info->dlpi_phnum; i++) {
		const ElfW(Phdr) &ph = info->dlpi_phdr[i];
		if (ph.p_type != PT_LOAD || !(ph.p_flags & PF_W)) continue;
		uintptr_t lo = (info->dlpi_addr + ph.p_vaddr) & ~(uintptr_t) 4095, hi = (info->dlpi_addr + ph.p_vaddr + ph.p_memsz + 4095) & ~(uintptr_t) 4095;
		g_lib_rw.push_back({lo, hi});
	}
	return 0;
}
static void find_lib_rw() {
	g_lib_rw.clear();
	dl_iterate_phdr(phdr_cb, nullptr);
}
static void protect_lib(bool ro) {
	for (auto &r : g_lib_rw) mprotect((void *) r.lo, r.hi - r.lo, ro ? PROT_READ : PROT_READ | PROT_WRITE);
	g_protected = ro;
}
static std::vector<uint8_t> snapshot_lib() {
	std::vector<uint8_t> s;
	for (auto &r : g_lib_rw) s.insert(s.end(), (uint8_t *) r.lo, (uint8_t *) r.hi);
	return s;
}
static bool in_lib_rw(void *a) { for (auto &r : g_lib_rw) if ((uintptr_t) a >= r.lo && (uintptr_t) a < r.hi) return true; return false; }

// ------------------------------------------------------------------------------------------------------------
// (a)+(e) threads on read-only library data: every thread runs the cross-unit workload with its own seed; results == serial results
struct ThreadArg { uint64_t seed; uint64_t digest; std::string err; guard::Fault fault; pthread_barrier_t *bar; int reps; };
static void *thread_main(void *p) {
	ThreadArg *a = (ThreadArg *) p;
	guard::thread_init();
	if (a->bar) pthread_barrier_wait(a->bar);
	a->fault = guard::call([&] {
		for (int r = 0; r < a->reps && a->err.empty(); r++) {
			workload::Digest dg;
			a->err = workload::run(a->seed, dg, true);
			if (r == 0) a->digest = dg.h; else if (a->digest != dg.h) a->err = "digest changed between repetitions in the same thread";
		}
	});
	return nullptr;
}

static void body_threads(Tape &t, Ctx &c) {
	int nthreads = (int) t.pick<uint32_t>({2, 4, 8, 16, 3});
	int reps = (int) t.range(1, 3);
	uint64_t base = t.range(0, 1000000);
	bool same_seed = t.coin();
	c.fpmix(nthreads); c.fpmix(reps); c.fpmix(base); c.fpmix(same_seed);
	// serial reference digests (same process, same read-only library data)
	std::vector<uint64_t> want(nthreads);
	for (int i = 0; i < nthreads; i++) {
		workload::Digest dg;
		std::string e;
		guard::Fault f = guard::call([&] { e = workload::run(same_seed ? base : base + i, dg, true); });
		PBT_CHECK(!f.faulted, in_lib_rw(f.addr) ? "global-state:write" : "global-state:fault", "serial workload: %s%s", f.describe().c_str(), in_lib_rw(f.addr) ? " -- a WRITE to the library's own data after implementation selection" : "");
		PBT_CHECK(e.empty(), "global-state:workload", "serial workload fails: %s", e.c_str());
		want[i] = dg.h;
	}
	std::vector<ThreadArg> args(nthreads);
	std::vector<pthread_t> th(nthreads);
	pthread_barrier_t bar;
	pthread_barrier_init(&bar, nullptr, nthreads);
	for (int i = 0; i < nthreads; i++) { args[i].seed = same_seed ? base : base + i; args[i].bar = &bar; args[i].reps = reps; args[i].digest = 0; pthread_create(&th[i], nullptr, thread_main, &args[i]); }
	for (int i = 0; i < nthreads; i++) pthread_join(th[i], nullptr);
	pthread_barrier_destroy(&bar);
	for (int i = 0; i < nthreads; i++) {
		PBT_CHECK(!args[i].fault.faulted, in_lib_rw(args[i].fault.addr) ? "global-state:write" : "global-state:fault", "thread %d of %d: %s%s", i, nthreads, args[i].fault.describe().c_str(), in_lib_rw(args[i].fault.addr) ? " -- a WRITE to the library's own data after implementation selection" : "");
		PBT_CHECK(args[i].err.empty(), "global-state:workload", "thread %d of %d (seed %llu): %s", i, nthreads, (unsigned long long) args[i].seed, args[i].err.c_str());
		PBT_CHECK(args[i].digest == want[i], "global-state:threads-differ", "thread %d of %d (seed %llu): results differ from serial execution", i, nthreads, (unsigned long long) args[i].seed);
	}
	c.nontrivial = nthreads >= 2;
	c.label(fmt("threads=%d", nthreads));
	c.label(g_protected ? "library-data-read-only" : "library-data-writable(!)");
	if (c.want_sample) c.sample = fmt("{\"threads\":%d,\"repetitions\":%d,\"base_seed\":%llu,\"same_seed\":%d,\"library_rw_bytes_protected\":%zu}", nthreads, reps, (unsigned long long) base, (int) same_seed, [&] { size_t s = 0; for (auto &r : g_lib_rw) s += r.hi - r.lo; return s; }());
}

// (b) cold start: a forked child re-arms every dispatch slot (library data writable again), N threads leave a barrier into their first calls;
// results must be correct and every slot must end up with the value the serial resolution gives
static void body_coldstart(Tape &t, Ctx &c) {
	int nthreads = (int) t.pick<uint32_t>({2, 4, 8, 16});
	uint64_t seed = t.range(0, 100000);
	c.fpmix(nthreads); c.fpmix(seed);
	// serial slot values (this process is warm): names of what every slot resolved to
	std::vector<void *> warm;
	for (auto &s : cpu::slots()) warm.push_back(*s.slot);
	int pfd[2];
	if (pipe(pfd)) throw OracleBug("pipe failed");
	pid_t pid = fork();
	if (pid == 0) {
		close(pfd[0]);
		protect_lib(false);
		// before/after snapshot around the cold start: only the dispatch slots may change
		cpu::rearm_all();
		std::vector<uint8_t> before = snapshot_lib();
		std::vector<ThreadArg> args(nthreads);
		std::vector<pthread_t> th(nthreads);
		pthread_barrier_t bar;
		pthread_barrier_init(&bar, nullptr, nthreads);
		for (int i = 0; i < nthreads; i++) { args[i].seed = seed; args[i].bar = &bar; args[i].reps = 1; args[i].digest = 0; pthread_create(&th[i], nullptr, thread_main, &args[i]); }
		for (int i = 0; i < nthreads; i++) pthread_join(th[i], nullptr);
		std::string msg;
		for (int i = 0; i < nthreads && msg.empty(); i++) {
			if (args[i].fault.faulted) msg = "fault in racing thread: " + args[i].fault.describe();
			else if (!args[i].err.empty()) msg = "racing thread: " + args[i].err;
			else if (args[i].digest != args[0].digest) msg = "racing threads obtained different results";
		}
		size_t k = 0;
		for (auto &s : cpu::slots()) { if (msg.empty() && *s.slot != warm[k] && *s.slot != s.mbinit) msg = std::string("slot of ") + s.name + " holds a different implementation than serial resolution"; k++; }
		// snapshot diff: bytes that changed must lie inside a dispatch slot (or the cpu-shim counters of the verification build)
		std::vector<uint8_t> after = snapshot_lib();
		size_t off = 0;
		cpu::Tab *tab = cpu::verif_cpu_tab_ptr();
		for (auto &r : g_lib_rw) {
			for (uintptr_t a = r.lo; a < r.hi && msg.empty(); a++, off++) {
				if (before[off] == after[off]) continue;
				bool ok = a >= (uintptr_t) tab && a < (uintptr_t) tab + sizeof(cpu::Tab);
				for (auto &s : cpu::slots()) if (a >= (uintptr_t) s.slot && a < (uintptr_t) s.slot + 8) ok = true;
				if (!ok) msg = fmt("library data byte at %s+%zu changed during first use but is not a dispatch slot", "rw-segment", (size_t) (a - r.lo));
			}
			off = off; // (offset keeps running across regions)
		}
		if (write(pfd[1], msg.c_str(), msg.size())) {}
		_exit(msg.empty() ? 0 : 1);
	}
	close(pfd[1]);
	char buf[600] = {0};
	ssize_t n = read(pfd[0], buf, sizeof buf - 1);
	close(pfd[0]);
	int status = 0;
	waitpid(pid, &status, 0);
	PBT_CHECK(WIFEXITED(status), "global-state:coldstart", "cold-start child with %d racing threads died (status %d)", nthreads, status);
	PBT_CHECK(WEXITSTATUS(status) == 0, "global-state:coldstart", "cold start with %d racing threads: %s", nthreads, n > 0 ? buf : "(no message)");
	c.nontrivial = true;
	c.label(fmt("racing-threads=%d", nthreads));
	if (c.want_sample) c.sample = fmt("{\"racing_threads\":%d,\"workload_seed\":%llu}", nthreads, (unsigned long long) seed);
}

// (c) determinism: the same operation with the context, level buffer and output space pre-filled with different garbage gives identical bytes/counters/codes
struct Op { int kind; std::vector<dg::Seg> segs; int level, gzip_flag, hist_bits; uint32_t lbuf; igzc::StreamPlan plan; };
static std::vector<uint8_t> run_op(const Op &op, uint8_t fill, const std::vector<uint8_t> &data, std::string &err) {
	std::vector<uint8_t> res;
	if (op.kind <= 1) { // compress (stateless / streaming)
		igz::DefOpts o;
		o.level = op.level; o.gzip_flag = op.gzip_flag; o.hist_bits = op.hist_bits; o.lbuf_size = op.lbuf; o.stateless = op.kind == 0;
		o.do_prefill = true; o.prefill = fill;
		igz::Deflater d(o);
		if (op.kind == 0) {
			igz::CallInfo ci = d.call(data.data(), data.size(), data.size() + data.size() / 8 + 1024, NO_FLUSH, true);
			if (ci.faulted || !ci.problem.empty()) { err = ci.problem; return res; }
			res.push_back((uint8_t) ci.rc);
		} else {
			igzc::StreamPlan p = op.plan;
			std::string ks, e = igzc::run_stream(d, data, p, ks);
			if (ks == "inconclusive") throw Skip("inconclusive");
			if (!e.empty()) { err = e; return res; }
		}
		res.insert(res.end(), d.out.begin(), d.out.end());
		uint32_t tt[2] = {d.s->total_in, d.s->total_out};
		res.insert(res.end(), (uint8_t *) tt, (uint8_t *) tt + 8);
	} else if (op.kind == 2) { // inflate of an ISA-L stream
		igz::DefOpts o;
		o.level = op.level; o.gzip_flag = op.gzip_flag; o.lbuf_size = op.lbuf; o.stateless = true;
		igz::Deflater d(o);
		igz::CallInfo ci = d.call(data.data(), data.size(), data.size() + data.size() / 8 + 1024, NO_FLUSH, true);
		if (ci.faulted || ci.rc) { err = "encoder"; return res; }
		igz::InfOpts io;
		io.crc_flag = op.gzip_flag == IGZIP_GZIP ? ISAL_GZIP : op.gzip_flag == IGZIP_ZLIB ? ISAL_ZLIB : op.gzip_flag == IGZIP_GZIP_NO_HDR ? ISAL_GZIP_NO_HDR : op.gzip_flag == IGZIP_ZLIB_NO_HDR ? ISAL_ZLIB_NO_HDR : ISAL_DEFLATE;
		io.do_prefill = true; io.prefill = fill;
		igz::Inflater inf(io);
		igzc::Sched in = op.plan.in, out = op.plan.out;
		if (in.mode == 0) in.mode = 2;
		size_t pos = 0;
		int idle = 0;
		while (!inf.finished()) {
			size_t add = 0;
			if (pos < d.out.size()) { add = in.next(d.out.size() - pos); if (add > d.out.size() - pos) add = d.out.size() - pos; }
			size_t cap = out.mode == 0 ? data.size() + 64 : out.next(data.size() + 64);
			igz::CallInfo c2 = inf.call(d.out.data() + pos, add, cap);
			pos += add;
			if (c2.faulted || !c2.problem.empty()) { err = c2.problem; return res; }
			res.push_back((uint8_t) c2.rc);
			if (c2.rc) break;
			if (c2.consumed + c2.produced == 0 && add == 0) { if (++idle > 3) break; } else idle = 0;
			if (inf.calls > 100000) throw Skip("inconclusive");
		}
		res.insert(res.end(), inf.out.begin(), inf.out.end());
		uint32_t tt[2] = {inf.s->total_out, inf.s->crc};
		res.insert(res.end(), (uint8_t *) tt, (uint8_t *) tt + 8);
	} else { // table builder output and processed dictionary
		guard::Buf hb = guard::alloc(sizeof(struct isal_huff_histogram), guard::END, "hist", 8, 0);
		memset(hb.p, 0, sizeof(struct isal_huff_histogram));
		isal_update_histogram((uint8_t *) data.data(), (int) data.size(), (struct isal_huff_histogram *) hb.p);
		guard::Buf tb = guard::alloc(sizeof(struct isal_hufftables), guard::END, "tables", 8, 0);
		memset(tb.p, fill, sizeof(struct isal_hufftables));
		int rc = op.kind == 3 ? isal_create_hufftables((struct isal_hufftables *) tb.p, (struct isal_huff_histogram *) hb.p) : isal_create_hufftables_subset((struct isal_hufftables *) tb.p, (struct isal_huff_histogram *) hb.p);
		res.push_back((uint8_t) rc);
		res.insert(res.end(), tb.p, tb.p + sizeof(struct isal_hufftables));
		if (!data.empty()) {
			guard::Buf ds = guard::alloc(sizeof(struct isal_dict), guard::END, "isal_dict", 8, 0);
			memset(ds.p, fill, sizeof(struct isal_dict));
			((struct isal_dict *) ds.p)->level = 0; // documented precondition of the in-tree callers: the struct is initialised (level is read first)
			struct isal_zstream zs;
			isal_deflate_init(&zs);
			zs.level = op.level > 0 ? op.level : 0;
			int r2 = isal_deflate_process_dict(&zs, (struct isal_dict *) ds.p, (uint8_t *) data.data(), (uint32_t) data.size());
			res.push_back((uint8_t) r2);
			struct isal_dict *dd = (struct isal_dict *) ds.p;
			res.insert(res.end(), dd->history, dd->history + dd->hist_size);
			uint32_t meta[3] = {dd->level, dd->hist_size, dd->hash_size};
			res.insert(res.end(), (uint8_t *) meta, (uint8_t *) meta + 12);
			res.insert(res.end(), (uint8_t *) dd->hashtable, (uint8_t *) dd->hashtable + dd->hash_size * 2);
		}
	}
	guard::release_all();
	return res;
}

static void decode_op(Tape &t, Op &op, std::vector<uint8_t> &data) {
	op.kind = (int) t.range(0, 4);
	dg::gen(t, op.segs, 60000);
	dg::expand(op.segs, data);
	op.level = (int) t.range(0, 3);
	op.gzip_flag = (int) t.range(0, 4);
	op.hist_bits = (int) t.pick<uint32_t>({0, 0, 12});
	op.lbuf = igz::lvl_buf_size(op.level, (int) t.range(0, 4));
	op.plan = igzc::decode_plan(t, data.size());
}

static void body_determinism(Tape &t, Ctx &c) {
	Op op;
	std::vector<uint8_t> data;
	decode_op(t, op, data);
	uint8_t f1 = (uint8_t) t.pick<uint32_t>({0x00, 0xFF, 0xA5, 0x5A}), f2 = (uint8_t) t.pick<uint32_t>({0xFF, 0x00, 0x3C, 0x81, 0x01});
	if (f1 == f2) f2 ^= 0x77;
	c.fpmix(op.kind); c.fpmix(dg::fingerprint(op.segs)); c.fpmix(op.level * 100 + op.gzip_flag * 10 + op.hist_bits); c.fpmix(op.lbuf); c.fpmix(f1 * 256 + f2); c.fpmix(op.plan.in.mode * 7 + op.plan.in.param); c.fpmix(op.plan.out.mode * 7 + op.plan.out.param); c.fpmix(op.plan.flush_mode);
	std::string e1, e2;
	std::vector<uint8_t> r1 = run_op(op, f1, data, e1), r2 = run_op(op, f2, data, e2);
	static const char *KN[] = {"isal_deflate_stateless", "isal_deflate (streaming)", "isal_inflate (streaming)", "isal_create_hufftables + process_dict", "isal_create_hufftables_subset + process_dict"};
	PBT_CHECK(e1.empty() && e2.empty(), "determinism:call", "%s: %s %s", KN[op.kind], e1.c_str(), e2.c_str());
	bool ff = op.kind == 1 && (op.level == 1 || op.level == 2) && (op.plan.flush_mode == 2 || op.plan.flush_mode == 3);
	PBT_CHECK(r1 == r2, ff ? "determinism:deflate-lvl1-2-fullflush-address-dependent-stream" : "determinism:prefill", "%s (level %d, gzip_flag %d, %zu bytes): the result depends on the prior contents of the context / level buffer / output space (pre-fill 0x%02x vs 0x%02x): %zu vs %zu result bytes, first difference at %zu",
	          KN[op.kind], op.level, op.gzip_flag, data.size(), f1, f2, r1.size(), r2.size(), (size_t) (std::mismatch(r1.begin(), r1.begin() + std::min(r1.size(), r2.size()), r2.begin()).first - r1.begin()));
	c.nontrivial = data.size() >= 16;
	c.label(KN[op.kind]);
	if (c.want_sample) c.sample = fmt("{\"operation\":\"%s\",\"data\":%s,\"level\":%d,\"gzip_flag\":%d,\"prefills\":[%u,%u],\"result_bytes\":%zu}", KN[op.kind], dg::describe(op.segs).c_str(), op.level, op.gzip_flag, f1, f2, r1.size());
}

// (d) reuse: run A (possibly abandoned mid-stream), reset / re-init, run B == B on a fresh context
static void body_reuse(Tape &t, Ctx &c) {
	bool inflate = t.coin();
	std::vector<dg::Seg> sa, sb;
	dg::gen(t, sa, 50000);
	dg::gen(t, sb, 50000);
	std::vector<uint8_t> A, B;
	dg::expand(sa, A);
	dg::expand(sb, B);
	int level = (int) t.range(0, 3), gz = (int) t.range(0, 4), levelA = (int) t.range(0, 3), gzA = (int) t.range(0, 4);
	bool use_reset = t.coin();
	size_t abandon = (size_t) t.spread(0, A.size());
	bool complete_a = t.coin();
	uint32_t lb = igz::lvl_buf_size(3, 3);
	igzc::StreamPlan pb = igzc::decode_plan(t, B.size());
	c.fpmix(inflate); c.fpmix(dg::fingerprint(sa)); c.fpmix(dg::fingerprint(sb) * 3); c.fpmix(level * 1000 + gz * 100 + levelA * 10 + gzA); c.fpmix(use_reset * 2 + complete_a); c.fpmix(abandon); c.fpmix(pb.in.mode * 7 + pb.in.param); c.fpmix(pb.out.mode * 7 + pb.out.param); c.fpmix(pb.flush_mode);
	std::string what;
	if (!inflate && (mix64(dg::fingerprint(sa) ^ dg::fingerprint(sb)) % 3) == 0) {
		// one-shot calls repeated on ONE stream struct without any init/reset in between (isal_deflate_stateless re-arms its own state):
		// job A possibly cut short by STATELESS_OVERFLOW, then job B - B's bytes must be those of a fresh struct
		igz::DefOpts of;
		uint64_t hm = mix64(dg::fingerprint(sa) * 3 + abandon);
		if (hm & 1) level = 3; // the level with the deepest per-call state (queued match table)
		of.level = level; of.gzip_flag = 0; of.lbuf_size = igz::lvl_buf_size(level, (hm >> 1) % 2 ? 0 : (int) (abandon % 5)); of.stateless = true;
		igz::Deflater fresh(of);
		size_t capB = B.size() + B.size() / 8 + 4096;
		igz::CallInfo cf = fresh.call(B.data(), B.size(), capB, NO_FLUSH, true);
		PBT_CHECK(!cf.faulted && cf.problem.empty() && cf.rc == COMP_OK, "determinism:reuse:call", "one-shot B on a fresh struct: rc %d %s", cf.rc, cf.problem.c_str());
		igz::Deflater d(of);
		size_t capA = complete_a ? A.size() + A.size() / 8 + 4096 : (size_t) (abandon % 5000);
		igz::CallInfo ca = d.call(A.data(), A.size(), capA, NO_FLUSH, true);
		PBT_CHECK(!ca.faulted, "determinism:reuse:call", "one-shot A: %s", ca.problem.c_str());
		d.out.clear(); d.pending.clear();
		igz::CallInfo cb = d.call(B.data(), B.size(), capB, NO_FLUSH, true);
		what = fmt("isal_deflate_stateless level %d level_buf %u: job A (%zu bytes, avail_out %zu -> rc %d), then job B (%zu bytes) on the same struct without init", level, of.lbuf_size, A.size(), capA, ca.rc, B.size());
		PBT_CHECK(!cb.faulted && cb.rc == COMP_OK, "determinism:reuse:call", "%s: rc %d %s", what.c_str(), cb.rc, cb.problem.c_str());
		std::string v2 = igzc::verify_stream(d.out, B, 0, 0);
		PBT_CHECK(v2.empty(), "determinism:reuse:decode", "%s: %s", what.c_str(), v2.c_str());
		PBT_CHECK(d.out == fresh.out, "determinism:reuse", "%s: %zu bytes, a fresh struct gives %zu (first difference at %zu)", what.c_str(), d.out.size(), fresh.out.size(), (size_t) (std::mismatch(d.out.begin(), d.out.begin() + std::min(d.out.size(), fresh.out.size()), fresh.out.begin()).first - d.out.begin()));
		c.label("one-shot-repeated-without-init");
		c.label(ca.rc == COMP_OK ? "job-A-completed" : "job-A-overflowed");
	} else if (!inflate) {
		auto runB = [&](igz::Deflater &d) { igzc::StreamPlan p = pb; std::string ks, e = igzc::run_stream(d, B, p, ks); if (ks == "inconclusive") throw Skip("inconclusive"); if (!e.empty()) throw Violation("determinism:reuse:" + ks, "compressing B: " + e); };
		igz::DefOpts of;
		of.level = level; of.gzip_flag = gz; of.lbuf_size = lb;
		igz::Deflater fresh(of);
		runB(fresh);
		std::vector<uint8_t> want = fresh.out;
		igz::DefOpts oa;
		oa.level = levelA; oa.gzip_flag = gzA; oa.lbuf_size = lb;
		igz::Deflater d(oa);
		size_t n = complete_a ? A.size() : abandon;
		size_t capA = complete_a ? A.size() + A.size() / 8 + 1024 : (size_t) t.range(0, 300);
		int flA = t.coin() ? SYNC_FLUSH : NO_FLUSH;
		igz::CallInfo ci;
		ci = d.call(A.data(), n, capA, flA, complete_a);
		PBT_CHECK(!ci.faulted && ci.problem.empty(), "determinism:reuse:call", "compressing A: %s", ci.problem.c_str());
		// reset keeps the user-supplied fields, so they are set again explicitly; init resets everything
		if (use_reset) isal_deflate_reset(d.s); else isal_deflate_init(d.s);
		d.o = of;
		d.apply_params();
		d.s->flush = NO_FLUSH; d.s->end_of_stream = 0; d.s->hufftables = fresh.s->hufftables; d.s->avail_in = 0;
		d.out.clear(); d.pending.clear(); d.total_fed = d.total_consumed = 0; d.calls = 0; d.eos_announced = false;
		runB(d);
		what = fmt("compress A (%zu bytes, level %d, gzip_flag %d, %s), %s, compress B (%zu bytes, level %d, gzip_flag %d)", n, levelA, gzA, complete_a ? "completed" : "abandoned mid-stream", use_reset ? "isal_deflate_reset" : "isal_deflate_init", B.size(), level, gz);
		{
			std::string v1 = igzc::verify_stream(want, B, gz, 0), v2 = igzc::verify_stream(d.out, B, gz, 0);
			PBT_CHECK(v1.empty() && v2.empty(), "determinism:reuse:decode", "fresh: %s / reused: %s", v1.c_str(), v2.c_str());
		}
		bool fullflush = pb.flush_mode == 2 || pb.flush_mode == 3;
		std::string rkey = (level == 1 || level == 2) && fullflush ? "determinism:deflate-lvl1-2-fullflush-address-dependent-stream" : "determinism:reuse";
		PBT_CHECK(d.out == want, rkey, "%s: the reused context produces %zu bytes, a fresh one %zu (first difference at %zu)", what.c_str(), d.out.size(), want.size(), (size_t) (std::mismatch(d.out.begin(), d.out.begin() + std::min(d.out.size(), want.size()), want.begin()).first - d.out.begin()));
	} else {
		auto comp = [&](const std::vector<uint8_t> &x, int lvl, int g) { igz::DefOpts o; o.level = lvl; o.gzip_flag = g; o.lbuf_size = lb; o.stateless = true; igz::Deflater d(o); igz::CallInfo ci = d.call(x.data(), x.size(), x.size() + x.size() / 8 + 1024, NO_FLUSH, true); if (ci.faulted || ci.rc) throw Skip("encoder failed (C01)"); return d.out; };
		int gzi = (int) t.pick<uint32_t>({IGZIP_DEFLATE, IGZIP_GZIP, IGZIP_ZLIB}), gzia = (int) t.pick<uint32_t>({IGZIP_DEFLATE, IGZIP_GZIP, IGZIP_ZLIB});
		std::vector<uint8_t> ca = comp(A, levelA, gzia), cb = comp(B, level, gzi);
		auto flag = [](int g) { return g == IGZIP_GZIP ? ISAL_GZIP : g == IGZIP_ZLIB ? ISAL_ZLIB : ISAL_DEFLATE; };
		auto runB = [&](igz::Inflater &inf, std::vector<uint8_t> &rcs) {
			igzc::Sched in = pb.in, out = pb.out;
			if (in.mode == 0) in.mode = 2;
			size_t pos = 0;
			int idle = 0;
			while (!inf.finished()) {
				size_t add = 0;
				if (pos < cb.size()) { add = in.next(cb.size() - pos); if (add > cb.size() - pos) add = cb.size() - pos; }
				size_t cap = out.mode == 0 ? B.size() + 64 : out.next(B.size() + 64);
				igz::CallInfo ci = inf.call(cb.data() + pos, add, cap);
				pos += add;
				if (ci.faulted || !ci.problem.empty()) throw Violation("determinism:reuse:call", "inflating B: " + ci.problem);
				rcs.push_back((uint8_t) ci.rc);
				if (ci.rc) break;
				if (ci.consumed + ci.produced == 0 && add == 0) { if (++idle > 3) break; } else idle = 0;
				if (inf.calls > 100000) throw Skip("inconclusive");
			}
		};
		igz::InfOpts iof;
		iof.crc_flag = flag(gzi);
		igz::Inflater fresh(iof);
		std::vector<uint8_t> rf, rr;
		runB(fresh, rf);
		igz::InfOpts ioa;
		ioa.crc_flag = flag(gzia);
		igz::Inflater inf(ioa);
		size_t n = complete_a ? ca.size() : std::min(abandon, ca.size());
		igz::CallInfo ci = inf.call(ca.data(), n, complete_a ? A.size() + 64 : (size_t) t.range(0, 500));
		PBT_CHECK(!ci.faulted && ci.problem.empty(), "determinism:reuse:call", "inflating A: %s", ci.problem.c_str());
		if (use_reset) isal_inflate_reset(inf.s); else isal_inflate_init(inf.s);
		inf.s->crc_flag = flag(gzi); // crc_flag is a user-supplied field
		inf.s->hist_bits = 0;
		inf.out.clear(); inf.pending.clear(); inf.total_fed = inf.total_consumed = 0; inf.calls = 0;
		runB(inf, rr);
		what = fmt("inflate A (%zu of %zu bytes, crc_flag %d, %s), %s, inflate B (%zu bytes, crc_flag %d)", n, ca.size(), flag(gzia), complete_a ? "completed" : "abandoned mid-stream", use_reset ? "isal_inflate_reset" : "isal_inflate_init", cb.size(), flag(gzi));
		PBT_CHECK(fresh.finished() && fresh.out == B, "inflate:stateful:data", "fresh inflate of B fails");
		PBT_CHECK(inf.out == fresh.out && rr == rf && inf.finished() == fresh.finished() && inf.s->crc == fresh.s->crc && inf.s->total_out == fresh.s->total_out, "determinism:reuse",
		          "%s: the reused state delivers %zu bytes (finished %d, crc %08x), a fresh one %zu (finished %d, crc %08x)", what.c_str(), inf.out.size(), (int) inf.finished(), inf.s->crc, fresh.out.size(), (int) fresh.finished(), fresh.s->crc);
	}
	c.nontrivial = !complete_a;
	c.label(inflate ? "inflate" : "deflate");
	c.label(use_reset ? "reset" : "init");
	c.label(complete_a ? "A-completed" : "A-abandoned-mid-stream");
	if (c.want_sample) c.sample = fmt("{\"history\":%s}", jstr(what).c_str());
}

// single-threaded snapshot: running every API leaves the library's writable data unchanged after warm-up
static void body_snapshot(Tape &t, Ctx &c) {
	uint64_t seed = t.range(0, 1000000);
	c.fpmix(seed);
	std::vector<uint8_t> before = snapshot_lib();
	workload::Digest dg;
	std::string e;
	guard::Fault f = guard::call([&] { e = workload::run(seed, dg, t.coin()); });
	PBT_CHECK(!f.faulted, in_lib_rw(f.addr) ? "global-state:write" : "global-state:fault", "workload: %s", f.describe().c_str());
	PBT_CHECK(e.empty(), "global-state:workload", "workload fails: %s", e.c_str());
	std::vector<uint8_t> after = snapshot_lib();
	if (before != after) {
		size_t i = 0;
		while (before[i] == after[i]) i++;
		PBT_CHECK(false, "global-state:write", "the library's writable data changed at offset %zu of %zu during a warm single-threaded run of every API", i, before.size());
	}
	c.nontrivial = true;
	c.label(fmt("library-rw-bytes=%zu", before.size()));
	if (c.want_sample) c.sample = fmt("{\"workload_seed\":%llu,\"library_rw_bytes\":%zu}", (unsigned long long) seed, before.size());
}

// isal_update_histogram: the counts are accumulated, hash_table is documented as "tmp space": what it holds before a call
// (left over from an earlier buffer, or garbage) must not influence the counts
extern "C" void isal_update_histogram_base(uint8_t *, int, struct isal_huff_histogram *);
static void body_histogram(Tape &t, Ctx &c) {
	std::vector<dg::Seg> sa, sb;
	dg::gen(t, sa, 90000, nullptr, (int) t.pick<uint32_t>({3, 4, 5, 6, 2}));
	dg::gen(t, sb, 60000);
	std::vector<uint8_t> A, B;
	dg::expand(sa, A);
	dg::expand(sb, B);
	bool base = t.coin();
	const char *lv = "host"; // the library's data (dispatch slots included) is read-only in this harness; the other collector variants are covered the same way in C18
	int mode = (int) t.range(0, 1); // 0: same struct used for A then B; 1: hash_table pre-filled with generated garbage
	uint64_t gseed = t.bits64();
	c.fpmix(dg::fingerprint(sa)); c.fpmix(dg::fingerprint(sb) * 3); c.fpmix(base); c.fpmix(mode); c.fpmix(mix64((uint64_t) (uintptr_t) lv));
	auto upd = [&](const std::vector<uint8_t> &d, struct isal_huff_histogram *h) {
		guard::Buf ib = guard::alloc_copy(d.data(), d.size(), guard::START, "histogram input"); // a stale backward reference would leave the mapping
		guard::set_readonly(ib);
		guard::Fault f = guard::call([&] { if (base) isal_update_histogram_base(ib.p, (int) d.size(), h); else isal_update_histogram(ib.p, (int) d.size(), h); });
		PBT_CHECK(!f.faulted, "determinism:histogram", "isal_update_histogram%s on %zu bytes (cpu %s) with a used scratch table: %s", base ? "_base" : "", d.size(), lv, f.describe().c_str());
		guard::retire(ib);
	};
	guard::Buf hf = guard::alloc(sizeof(struct isal_huff_histogram), guard::END, "hist fresh", 8, 0), hu = guard::alloc(sizeof(struct isal_huff_histogram), guard::END, "hist used", 8, 0);
	struct isal_huff_histogram *fresh = (struct isal_huff_histogram *) hf.p, *used = (struct isal_huff_histogram *) hu.p;
	memset(fresh, 0, sizeof *fresh);
	memset(used, 0, sizeof *used);
	upd(B, fresh);
	std::vector<uint64_t> add(ISAL_DEF_LIT_LEN_SYMBOLS + ISAL_DEF_DIST_SYMBOLS, 0);
	if (mode == 0) {
		upd(A, used);
		memcpy(add.data(), used->lit_len_histogram, sizeof used->lit_len_histogram);
		memcpy(add.data() + ISAL_DEF_LIT_LEN_SYMBOLS, used->dist_histogram, sizeof used->dist_histogram);
	} else {
		for (size_t i = 0; i < IGZIP_LVL0_HASH_SIZE; i++) used->hash_table[i] = (uint16_t) (mix64(gseed + i) >> 7);
	}
	upd(B, used);
	for (int i = 0; i < ISAL_DEF_LIT_LEN_SYMBOLS; i++)
		PBT_CHECK(used->lit_len_histogram[i] == add[i] + fresh->lit_len_histogram[i], "determinism:histogram", "isal_update_histogram%s (cpu %s): literal/length count %d for a %zu-byte buffer is %llu on a fresh struct but %llu when the scratch table held %s",
		          base ? "_base" : "", lv, i, B.size(), (unsigned long long) fresh->lit_len_histogram[i], (unsigned long long) (used->lit_len_histogram[i] - add[i]), mode ? "garbage" : fmt("the leftovers of a %zu-byte buffer", A.size()).c_str());
	for (int i = 0; i < ISAL_DEF_DIST_SYMBOLS; i++)
		PBT_CHECK(used->dist_histogram[i] == add[ISAL_DEF_LIT_LEN_SYMBOLS + i] + fresh->dist_histogram[i], "determinism:histogram", "isal_update_histogram%s (cpu %s): distance count %d differs between a fresh struct and one whose scratch table was used before", base ? "_base" : "", lv, i);
	uint64_t nm = 0;
	for (int i = 257; i < ISAL_DEF_LIT_LEN_SYMBOLS; i++) nm += fresh->lit_len_histogram[i];
	c.nontrivial = nm > 0 && (mode == 1 || A.size() > 32768);
	c.label(base ? "collector=base" : std::string("collector=dispatched@") + lv);
	c.label(mode ? "scratch=garbage" : A.size() > 32768 ? "scratch=leftover(>32KiB buffer)" : "scratch=leftover");
	if (c.want_sample) c.sample = fmt("{\"A\":%s,\"B\":%s,\"collector\":\"%s\",\"cpu\":\"%s\",\"scratch\":\"%s\",\"matches_in_B\":%llu}", dg::describe(sa).c_str(), dg::describe(sb).c_str(), base ? "base" : "dispatched", lv, mode ? "garbage" : "leftover", (unsigned long long) nm);
}

int main(int argc, char **argv) {
	workload::g_with_bytes = true;
	workload::g_with_base = true;
	refcrc::self_test();
	find_lib_rw();
	if (g_lib_rw.empty()) { fprintf(stderr, "ORACLE-BUG: no writable mapping of libisal_v.so found\n"); return 3; }
	// warm-up: one-time selection of every implementation, then the library's own data becomes read-only for the whole run
	{
		workload::Digest dg;
		std::string e = workload::run(1, dg, false);
		if (!e.empty()) fprintf(stderr, "warm-up workload: %s\n", e.c_str());
		for (auto &s : cpu::slots()) if (*s.slot == s.mbinit) { // entry points the workload does not reach are resolved directly
			s.dispatch_init();
		}
	}
	protect_lib(true);
	atexit([] { protect_lib(false); }); // the shared object's own finalisers write to its .bss when the process exits
	std::vector<Sub> subs = {
		{"threads_readonly_data", body_threads, 8, 2, nullptr, "after warm-up the library's writable mappings (from /proc/self/maps) are mprotect'ed read-only; 2..16 threads leave a barrier into the cross-unit workload (all units, caller-owned contexts); a write to library data faults and is attributed; thread results == serial results; non-trivial: >= 2 threads x >= 3 units"},
		{"snapshot", body_snapshot, 4, 1, nullptr, "byte snapshot of the library's writable data before/after a warm single-threaded run of every API: identical"},
		{"coldstart_race", body_coldstart, 4, 2, nullptr, "forked process with all dispatch slots re-armed: N threads leave a barrier into their first calls; results correct and equal, every slot ends with the serial value, only dispatch slots change"},
		{"determinism_prefill", body_determinism, 64, 6, nullptr, "same operation with context / level_buf / output / isal_dict / hufftables output pre-filled with two different garbage patterns -> identical bytes, counters and codes; non-trivial: >= 16 input bytes"},
		{"histogram_scratch", body_histogram, 64, 3, nullptr, "isal_update_histogram{_base, dispatched}: counts for buffer B on a zeroed struct == counts added by B on a struct already used for a buffer A (often > 32 KiB) or whose hash_table scratch area holds generated garbage; inputs in exact-size mappings; non-trivial: B has matches and the scratch area was really used"},
		{"reuse", body_reuse, 96, 6, nullptr, "compress or inflate A (possibly abandoned mid-stream), *_reset or *_init (user fields re-set), run B -> identical to B on a fresh context; non-trivial: A abandoned mid-stream"},
	};
	return pbt_main(argc, argv, "C15", subs);
}
