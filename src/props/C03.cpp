// C03 - erasure-code encode equals the GF(2^8) matrix product in every ISA variant
#include "ec_variants.h"
using namespace pbt;
using namespace ecv;

struct Bufs {
	std::vector<guard::Buf> src, dst;
	guard::Buf srcv, dstv, tbl, coef;
};

// allocate sources (read-only), destinations (guarded, canaried), pointer vectors and tables
static void setup(Bufs &b, int k, int rows, size_t len, const kern::Placement &sp, const kern::Placement &dp, std::vector<uint8_t> &coef, uint64_t dseed, bool gfni,
                  bool dispatched_tables) {
	b.coef = guard::alloc_copy(coef.data(), coef.size(), guard::END, "coef");
	guard::set_readonly(b.coef);
	// no alignment is documented for the tables: three cases in four start at an arbitrary byte offset (derived from the generated coefficients)
	{ uint64_t h = 1469598103934665603ull; for (uint8_t x : coef) h = (h ^ x) * 1099511628211ull; h = pbt::mix64(h);
	  b.tbl = guard::alloc((size_t) 32 * k * rows, guard::END, "g_tbls", 64, (h & 3) ? (size_t) ((h >> 2) % 64) : 0); }
	if (dispatched_tables) ec_init_tables(k, rows, b.coef.p, b.tbl.p);
	else build_tables(gfni, k, rows, b.coef.p, b.tbl.p);
	guard::set_readonly(b.tbl);
	for (int j = 0; j < k; j++) {
		kern::Placement p = sp;
		if (p.mode >= 2) p.off = (p.off + 13 * j) & 63;
		guard::Buf s = kern::alloc(len, p, "src");
		kern::fill(s.p, len, dseed + j * 7919, (j % 5 == 4) ? 2 : 0);
		guard::set_readonly(s);
		b.src.push_back(s);
	}
	for (int r = 0; r < rows; r++) {
		kern::Placement p = dp;
		if (p.mode >= 2) p.off = (p.off + 29 * r) & 63;
		b.dst.push_back(kern::alloc(len, p, "dest"));
	}
	b.srcv = guard::alloc(sizeof(void *) * k, guard::END, "src pointer array", 8, 0);
	for (int j = 0; j < k; j++) ((uint8_t **) b.srcv.p)[j] = b.src[j].p;
	guard::set_readonly(b.srcv);
	b.dstv = guard::alloc(sizeof(void *) * rows, guard::END, "dest pointer array", 8, 0);
	for (int r = 0; r < rows; r++) ((uint8_t **) b.dstv.p)[r] = b.dst[r].p;
	guard::set_readonly(b.dstv);
}

static void verify(const Bufs &b, int k, int rows, size_t len, const std::vector<uint8_t> &coef, const std::string &key, const std::string &what) {
	const auto &M = refgf::T().m;
	for (int r = 0; r < rows; r++) {
		PBT_CHECK(guard::canaries_ok(b.dst[r]), key, "%s wrote outside destination block %d (len=%zu)", what.c_str(), r, len);
		for (size_t i = 0; i < len; i++) {
			uint8_t s = 0;
			for (int j = 0; j < k; j++) s ^= M[coef[(size_t) r * k + j]][b.src[j].p[i]];
			PBT_CHECK(b.dst[r].p[i] == s, key, "%s: dest[%d][%zu] = 0x%02x, GF(2^8) matrix product gives 0x%02x (k=%d rows=%d len=%zu)", what.c_str(), r, i, b.dst[r].p[i], s, k, rows, len);
		}
	}
}

static void run_dot(int ki, int k, size_t len, const kern::Placement &sp, const kern::Placement &dp, std::vector<uint8_t> &coef, uint64_t dseed, Ctx &c) {
	const Kernel &kn = DOT[ki];
	const Family &fm = FAM[kn.fam];
	require_family(kn.fam, kn.name);
	Bufs b;
	setup(b, k, kn.n, len, sp, dp, coef, dseed, fm.gfni, false);
	std::string key = std::string("ec:") + kn.name;
	guard::Fault f = guard::call([&] {
		if (kn.n == 1) ((void (*)(int, int, unsigned char *, unsigned char **, unsigned char *)) kn.fn)((int) len, k, b.tbl.p, (uint8_t **) b.srcv.p, b.dst[0].p);
		else ((void (*)(int, int, unsigned char *, unsigned char **, unsigned char **)) kn.fn)((int) len, k, b.tbl.p, (uint8_t **) b.srcv.p, (uint8_t **) b.dstv.p);
	});
	PBT_CHECK(!f.faulted, key, "%s(len=%zu,k=%d, src %s, dest %s): %s", kn.name, len, k, sp.desc().c_str(), dp.desc().c_str(), f.describe().c_str());
	verify(b, k, kn.n, len, coef, key, kn.name);
	bool nz = false;
	for (uint8_t v : coef) if (v > 1) nz = true;
	c.nontrivial = k >= 2 && nz && len >= (size_t) (fm.minlen ? fm.minlen : 1);
	c.label(kn.name);
	if (len % 64) c.label("len%64!=0");
	if (c.want_sample) c.sample = fmt("{\"kernel\":%s,\"k\":%d,\"len\":%zu,\"src\":%s,\"dest\":%s,\"coef\":%s}", jstr(kn.name).c_str(), k, len, jstr(sp.desc()).c_str(), jstr(dp.desc()).c_str(), jhex(coef.data(), coef.size(), 12).c_str());
}

static int decode_k(Tape &t, size_t len, int rows) {
	static const int KS[] = {1, 2, 3, 4, 5, 6, 7, 8, 9, 10, 12, 14, 16, 17, 32, 33, 64, 128, 255};
	int k = t.coin() ? KS[t.range(0, 18)] : (int) t.range(1, 255);
	size_t budget = 6000000; // keep the bit-exact reference affordable: k*len*rows table look-ups
	while (k > 1 && (size_t) k * (len ? len : 1) * rows > budget) k = k / 2;
	return k;
}

static void body_dot(Tape &t, Ctx &c) {
	int ki = (int) t.range(0, NDOT - 1);
	const Family &fm = FAM[DOT[ki].fam];
	size_t len = kern::decode_len(t, 70000);
	if ((int) len < fm.minlen) len = (size_t) fm.minlen + len; // never below the documented minimum of a direct kernel
	int k = decode_k(t, len, DOT[ki].n);
	kern::Placement sp = kern::decode_placement(t), dp = kern::decode_placement(t);
	std::vector<uint8_t> coef;
	gen_coef(t, coef, DOT[ki].n, k);
	uint64_t dseed = t.bits64();
	c.fpmix(ki); c.fpmix(k); c.fpmix(len); c.fpmix(sp.mode * 64 + sp.off); c.fpmix(dp.mode * 64 + dp.off); c.fpmix(dseed);
	for (uint8_t v : coef) c.fpmix(v);
	run_dot(ki, k, len, sp, dp, coef, dseed, c);
}

// systematic: tape {kernel, k, len-min}: end-flush and start-flush
static void body_dot_sweep(Tape &t, Ctx &c) {
	int ki = (int) t.range(0, NDOT - 1);
	int k = (int) t.range(1, 255);
	size_t len = (size_t) FAM[DOT[ki].fam].minlen + (size_t) t.range(0, 5000);
	int mode = (int) t.range(0, 3);
	std::vector<uint8_t> coef((size_t) DOT[ki].n * k);
	for (size_t i = 0; i < coef.size(); i++) coef[i] = (uint8_t) (mix64(ki * 977 + len * 31 + i) >> 9);
	kern::Placement p{(mode & 1) ? guard::START : guard::END, (size_t) (mode >= 2 ? 64 : 1), (size_t) (mode >= 2 ? (len * 5 + 1) & 63 : 0), mode};
	c.fpmix(ki); c.fpmix(k); c.fpmix(len); c.fpmix(mode);
	run_dot(ki, k, len, p, p, coef, len * 3 + ki, c);
}
static void sweep_dot(SweepSink &s) {
	uint32_t span = s.thorough() ? 300 : 140;
	for (uint32_t ki = 0; ki < (uint32_t) NDOT; ki++)
		for (uint32_t d = 0; d <= span; d++) {
			uint32_t k = 1 + (d + ki) % 5;
			if (!s.emit({ki, k - 1, d, d % 3 == 2 ? 2u : (d & 1)})) return;
		}
}

// ec_encode_data_* and the dispatcher under simulated cpu levels
static void body_enc(Tape &t, Ctx &c) {
	uint32_t vi = (uint32_t) t.range(0, NENC + cpu::N_LEVELS - 1);
	int rows = (int) t.range(1, 14);
	size_t len = kern::decode_len(t, 40000);
	int k = decode_k(t, len, rows);
	kern::Placement sp = kern::decode_placement(t), dp = kern::decode_placement(t);
	std::vector<uint8_t> coef;
	gen_coef(t, coef, rows, k);
	uint64_t dseed = t.bits64();
	c.fpmix(vi); c.fpmix(rows); c.fpmix(k); c.fpmix(len); c.fpmix(sp.mode * 64 + sp.off); c.fpmix(dp.mode * 64 + dp.off); c.fpmix(dseed);
	for (uint8_t v : coef) c.fpmix(v);
	std::string name;
	enc_fn fn;
	bool gfni = false, disp = false;
	if (vi < (uint32_t) NENC) {
		require_family(ENCS[vi].fam, ENCS[vi].name);
		fn = ENCS[vi].fn;
		name = ENCS[vi].name;
		gfni = FAM[ENCS[vi].fam].gfni;
	} else {
		const char *lv = cpu::LEVEL_NAMES[vi - NENC];
		kern::use_level(lv);
		fn = ec_encode_data;
		name = std::string("ec_encode_data@") + lv;
		disp = true;
	}
	Bufs b;
	setup(b, k, rows, len, sp, dp, coef, dseed, gfni, disp);
	std::string key = "ec:" + name.substr(0, name.find('@'));
	guard::Fault f = guard::call([&] { fn((int) len, k, rows, b.tbl.p, (uint8_t **) b.srcv.p, (uint8_t **) b.dstv.p); });
	PBT_CHECK(!f.faulted, key, "%s(len=%zu,k=%d,rows=%d, src %s, dest %s): %s", name.c_str(), len, k, rows, sp.desc().c_str(), dp.desc().c_str(), f.describe().c_str());
	verify(b, k, rows, len, coef, key, name);
	bool nz = false;
	for (uint8_t v : coef) if (v > 1) nz = true;
	c.nontrivial = k >= 2 && nz && len >= 1;
	c.label(disp ? name + "->" + cpu::resolved_name("ec_encode_data") + "/" + cpu::resolved_name("ec_init_tables") : name);
	c.label(fmt("rows%%6=%d", rows % 6));
	if (c.want_sample) c.sample = fmt("{\"fn\":%s,\"k\":%d,\"rows\":%d,\"len\":%zu,\"src\":%s,\"dest\":%s,\"coef\":%s}", jstr(name).c_str(), k, rows, len, jstr(sp.desc()).c_str(), jstr(dp.desc()).c_str(), jhex(coef.data(), coef.size(), 12).c_str());
}

// dispatched gf_vect_dot_prod (32-byte tables, documented len >= 32)
static void body_dot_disp(Tape &t, Ctx &c) {
	const char *lv = cpu::LEVEL_NAMES[t.range(0, cpu::N_LEVELS - 1)];
	size_t len = 32 + kern::decode_len(t, 20000);
	int k = decode_k(t, len, 1);
	kern::Placement sp = kern::decode_placement(t), dp = kern::decode_placement(t);
	std::vector<uint8_t> coef;
	gen_coef(t, coef, 1, k);
	uint64_t dseed = t.bits64();
	c.fpmix(mix64((uint64_t) (uintptr_t) lv)); c.fpmix(k); c.fpmix(len); c.fpmix(dseed); c.fpmix(sp.mode * 64 + sp.off);
	for (uint8_t v : coef) c.fpmix(v);
	kern::use_level(lv);
	Bufs b;
	setup(b, k, 1, len, sp, dp, coef, dseed, false, false);
	std::string name = std::string("gf_vect_dot_prod@") + lv;
	guard::Fault f = guard::call([&] { gf_vect_dot_prod((int) len, k, b.tbl.p, (uint8_t **) b.srcv.p, b.dst[0].p); });
	PBT_CHECK(!f.faulted, "ec:gf_vect_dot_prod", "%s(len=%zu,k=%d): %s", name.c_str(), len, k, f.describe().c_str());
	verify(b, k, 1, len, coef, "ec:gf_vect_dot_prod", name);
	c.nontrivial = k >= 2;
	c.label(name + "->" + cpu::resolved_name("gf_vect_dot_prod"));
}

int main(int argc, char **argv) {
	const char *rule = "case = (kernel or entry point@cpu-level, k, rows, len, per-buffer placement/alignment, coefficient matrix, data); oracle = bit-exact GF(2^8)/0x11D matrix "
	                   "product from carry-less arithmetic; sources, tables and pointer arrays are read-only mappings, destinations are guard-paged with canaries; "
	                   "non-trivial: k >= 2, some coefficient not in {0,1}, len >= the kernel's documented minimum";
	std::vector<Sub> subs = {
		{"dot_sweep", body_dot_sweep, 4, 0, sweep_dot, rule},
		{"dot_direct", body_dot, 22, 10, nullptr, rule},
		{"encode", body_enc, 22, 10, nullptr, rule},
		{"dot_dispatch", body_dot_disp, 16, 2, nullptr, rule},
	};
	return pbt_main(argc, argv, "C03", subs);
}
