// C13 - incremental parity update equals full encode, in any order and every variant
#include "ec_variants.h"
#include <algorithm>
using namespace pbt;
using namespace ecv;

struct MB {
	guard::Buf coef, tbl, src, dstv;
	std::vector<guard::Buf> dst;
};

static void setup_tbl(MB &b, int k, int rows, std::vector<uint8_t> &coef, bool gfni, bool dispatched) {
	b.coef = guard::alloc_copy(coef.data(), coef.size(), guard::END, "coef");
	guard::set_readonly(b.coef);
	// no alignment is documented for the tables: three cases in four start at an arbitrary byte offset (derived from the generated coefficients)
	{ uint64_t h = 1469598103934665603ull; for (uint8_t x : coef) h = (h ^ x) * 1099511628211ull; h = pbt::mix64(h);
	  b.tbl = guard::alloc((size_t) 32 * k * rows, guard::END, "g_tbls", 64, (h & 3) ? (size_t) ((h >> 2) % 64) : 0); }
	if (dispatched) ec_init_tables(k, rows, b.coef.p, b.tbl.p);
	else build_tables(gfni, k, rows, b.coef.p, b.tbl.p);
	guard::set_readonly(b.tbl);
}
static void setup_dst(MB &b, int rows, size_t len, const kern::Placement &dp, uint64_t seed, bool zero) {
	for (int r = 0; r < rows; r++) {
		kern::Placement p = dp;
		if (p.mode >= 2) p.off = (p.off + 29 * r) & 63;
		guard::Buf d = kern::alloc(len, p, "parity");
		if (zero) memset(d.p, 0, len); else kern::fill(d.p, len, seed + 31 * r, 0);
		b.dst.push_back(d);
	}
	b.dstv = guard::alloc(sizeof(void *) * rows, guard::END, "parity pointer array", 8, 0);
	for (int r = 0; r < rows; r++) ((uint8_t **) b.dstv.p)[r] = b.dst[r].p;
	guard::set_readonly(b.dstv);
}

static void call_mad(const Kernel &kn, size_t len, int k, int vec_i, MB &b) {
	if (kn.n == 1) ((void (*)(int, int, int, unsigned char *, unsigned char *, unsigned char *)) kn.fn)((int) len, k, vec_i, b.tbl.p, b.src.p, b.dst[0].p);
	else ((void (*)(int, int, int, unsigned char *, unsigned char *, unsigned char **)) kn.fn)((int) len, k, vec_i, b.tbl.p, b.src.p, (uint8_t **) b.dstv.p);
}

static void run_mad(int ki, int k, int vec_i, size_t len, const kern::Placement &sp, const kern::Placement &dp, std::vector<uint8_t> &coef, uint64_t dseed, Ctx &c) {
	const Kernel &kn = MAD[ki];
	const Family &fm = FAM[kn.fam];
	require_family(kn.fam, kn.name);
	MB b;
	setup_tbl(b, k, kn.n, coef, fm.gfni, false);
	b.src = kern::alloc(len, sp, "src");
	kern::fill(b.src.p, len, dseed, 0);
	guard::set_readonly(b.src);
	setup_dst(b, kn.n, len, dp, dseed + 5, false);
	std::vector<std::vector<uint8_t>> old(kn.n);
	for (int r = 0; r < kn.n; r++) old[r].assign(b.dst[r].p, b.dst[r].p + len);
	std::string key = std::string("ec:") + kn.name;
	guard::Fault f = guard::call([&] { call_mad(kn, len, k, vec_i, b); });
	PBT_CHECK(!f.faulted, key, "%s(len=%zu,vec=%d,vec_i=%d, src %s, dest %s): %s", kn.name, len, k, vec_i, sp.desc().c_str(), dp.desc().c_str(), f.describe().c_str());
	const auto &M = refgf::T().m;
	for (int r = 0; r < kn.n; r++) {
		PBT_CHECK(guard::canaries_ok(b.dst[r]), key, "%s wrote outside parity block %d (len=%zu)", kn.name, r, len);
		uint8_t cf = coef[(size_t) r * k + vec_i];
		for (size_t i = 0; i < len; i++) {
			uint8_t want = old[r][i] ^ M[cf][b.src.p[i]];
			PBT_CHECK(b.dst[r].p[i] == want, key, "%s: parity[%d][%zu] = 0x%02x, old ^ coef*src = 0x%02x (vec=%d vec_i=%d len=%zu coef=%u)", kn.name, r, i, b.dst[r].p[i], want, k, vec_i, len, cf);
		}
	}
	// applying the same update again cancels it
	f = guard::call([&] { call_mad(kn, len, k, vec_i, b); });
	PBT_CHECK(!f.faulted, key, "%s second application: %s", kn.name, f.describe().c_str());
	for (int r = 0; r < kn.n; r++)
		PBT_CHECK(memcmp(b.dst[r].p, old[r].data(), len) == 0, key, "%s: applying the update twice does not restore parity block %d (len=%zu vec=%d vec_i=%d)", kn.name, r, len, k, vec_i);
	c.nontrivial = k >= 2 && kn.n >= 2 && vec_i != 0;
	c.label(kn.name);
	if (c.want_sample) c.sample = fmt("{\"kernel\":%s,\"vec\":%d,\"vec_i\":%d,\"len\":%zu,\"src\":%s,\"dest\":%s}", jstr(kn.name).c_str(), k, vec_i, len, jstr(sp.desc()).c_str(), jstr(dp.desc()).c_str());
}

static void body_mad(Tape &t, Ctx &c) {
	int ki = (int) t.range(0, NMAD - 1);
	const Family &fm = FAM[MAD[ki].fam];
	size_t len = kern::decode_len(t, 70000);
	if ((int) len < fm.minlen) len += fm.minlen;
	int k = (int) (t.coin() ? t.range(1, 12) : t.range(1, 64));
	if (t.chance(1, 20)) k = 255;
	int vec_i = (int) t.range(0, k - 1);
	kern::Placement sp = kern::decode_placement(t), dp = kern::decode_placement(t);
	std::vector<uint8_t> coef;
	gen_coef(t, coef, MAD[ki].n, k);
	uint64_t dseed = t.bits64();
	c.fpmix(ki); c.fpmix(k); c.fpmix(vec_i); c.fpmix(len); c.fpmix(sp.mode * 64 + sp.off); c.fpmix(dp.mode * 64 + dp.off); c.fpmix(dseed);
	for (uint8_t v : coef) c.fpmix(v);
	run_mad(ki, k, vec_i, len, sp, dp, coef, dseed, c);
}
static void body_mad_sweep(Tape &t, Ctx &c) {
	int ki = (int) t.range(0, NMAD - 1);
	int k = (int) t.range(1, 64);
	size_t len = (size_t) FAM[MAD[ki].fam].minlen + (size_t) t.range(0, 5000);
	int mode = (int) t.range(0, 3);
	int vec_i = (int) ((len + ki) % k);
	std::vector<uint8_t> coef((size_t) MAD[ki].n * k);
	for (size_t i = 0; i < coef.size(); i++) coef[i] = (uint8_t) (mix64(ki * 977 + len * 31 + i) >> 9);
	kern::Placement p{(mode & 1) ? guard::START : guard::END, (size_t) (mode >= 2 ? 64 : 1), (size_t) (mode >= 2 ? (len * 5 + 1) & 63 : 0), mode};
	c.fpmix(ki); c.fpmix(k); c.fpmix(len); c.fpmix(mode);
	run_mad(ki, k, vec_i, len, p, p, coef, len * 3 + ki, c);
}
static void sweep_mad(SweepSink &s) {
	uint32_t span = s.thorough() ? 300 : 140;
	for (uint32_t ki = 0; ki < (uint32_t) NMAD; ki++)
		for (uint32_t d = 0; d <= span; d++)
			if (!s.emit({ki, (d + ki) % 4, d, d % 3 == 2 ? 2u : (d & 1)})) return;
}

// state machine: zeroed parity, update every source index in a generated order (with optional double applications)
static void body_update(Tape &t, Ctx &c) {
	uint32_t vi = (uint32_t) t.range(0, NENC + cpu::N_LEVELS - 1);
	int rows = (int) t.range(1, 14);
	size_t len = kern::decode_len(t, 20000);
	int k = (int) (t.coin() ? t.range(1, 10) : t.range(1, 40));
	while (k > 1 && (size_t) k * k * (len ? len : 1) * rows > 30000000) k /= 2;
	kern::Placement sp = kern::decode_placement(t), dp = kern::decode_placement(t);
	std::vector<uint8_t> coef;
	gen_coef(t, coef, rows, k);
	uint64_t dseed = t.bits64();
	// order: permutation from generated keys, plus up to 3 cancelling double-applications
	std::vector<std::pair<uint32_t, int>> keys;
	for (int j = 0; j < k; j++) keys.push_back({t.raw(), j});
	std::stable_sort(keys.begin(), keys.end());
	std::vector<int> order;
	for (auto &kv : keys) order.push_back(kv.second);
	int ndbl = (int) t.range(0, 3);
	std::vector<int> seq = order;
	for (int d = 0; d < ndbl; d++) {
		int idx = (int) t.range(0, k - 1);
		size_t at = (size_t) t.range(0, seq.size());
		seq.insert(seq.begin() + at, idx);
		seq.insert(seq.begin() + at, idx);
	}
	bool ident = true;
	for (int j = 0; j < k; j++) if (order[j] != j) ident = false;
	c.fpmix(vi); c.fpmix(rows); c.fpmix(k); c.fpmix(len); c.fpmix(dseed); c.fpmix(sp.mode * 64 + sp.off); c.fpmix(dp.mode * 64 + dp.off);
	for (int x : seq) c.fpmix(x);
	for (uint8_t v : coef) c.fpmix(v);

	std::string name;
	upd_fn fn;
	bool gfni = false, disp = false;
	if (vi < (uint32_t) NENC) {
		require_family(UPDS[vi].fam, UPDS[vi].name);
		fn = UPDS[vi].fn; name = UPDS[vi].name; gfni = FAM[UPDS[vi].fam].gfni;
	} else {
		const char *lv = cpu::LEVEL_NAMES[vi - NENC];
		kern::use_level(lv);
		fn = ec_encode_data_update; name = std::string("ec_encode_data_update@") + lv; disp = true;
	}
	std::string key = "ec:" + name.substr(0, name.find('@'));
	MB b;
	setup_tbl(b, k, rows, coef, gfni, disp);
	std::vector<guard::Buf> srcs;
	for (int j = 0; j < k; j++) {
		kern::Placement p = sp;
		if (p.mode >= 2) p.off = (p.off + 13 * j) & 63;
		guard::Buf s = kern::alloc(len, p, "src");
		kern::fill(s.p, len, dseed + j * 7919, 0);
		guard::set_readonly(s);
		srcs.push_back(s);
	}
	setup_dst(b, rows, len, dp, 0, true);
	const auto &M = refgf::T().m;
	std::vector<std::vector<uint8_t>> model(rows, std::vector<uint8_t>(len, 0));
	for (size_t step = 0; step < seq.size(); step++) {
		int vec_i = seq[step];
		guard::Fault f = guard::call([&] { fn((int) len, k, rows, vec_i, b.tbl.p, srcs[vec_i].p, (uint8_t **) b.dstv.p); });
		PBT_CHECK(!f.faulted, key, "%s(len=%zu,k=%d,rows=%d,vec_i=%d) step %zu: %s", name.c_str(), len, k, rows, vec_i, step, f.describe().c_str());
		for (int r = 0; r < rows; r++) {
			uint8_t cf = coef[(size_t) r * k + vec_i];
			for (size_t i = 0; i < len; i++) model[r][i] ^= M[cf][srcs[vec_i].p[i]];
			PBT_CHECK(guard::canaries_ok(b.dst[r]), key, "%s wrote outside parity block %d", name.c_str(), r);
			if (memcmp(b.dst[r].p, model[r].data(), len) != 0) {
				size_t i = 0;
				while (b.dst[r].p[i] == model[r][i]) i++;
				PBT_CHECK(false, key, "%s: after step %zu (vec_i=%d) parity[%d][%zu]=0x%02x, model (old ^ coef*src) 0x%02x (k=%d rows=%d len=%zu)", name.c_str(), step, vec_i, r, i, b.dst[r].p[i], model[r][i], k, rows, len);
			}
		}
	}
	// all k updates from zeroed parity == full encode (reference and the library's portable encoder)
	std::vector<uint8_t *> sp_(k), dp_(rows);
	std::vector<std::vector<uint8_t>> full(rows, std::vector<uint8_t>(len)), libfull(rows, std::vector<uint8_t>(len));
	for (int j = 0; j < k; j++) sp_[j] = srcs[j].p;
	for (int r = 0; r < rows; r++) dp_[r] = full[r].data();
	refgf::encode((int) len, k, rows, coef.data(), sp_.data(), dp_.data());
	std::vector<uint8_t> t32((size_t) 32 * k * rows);
	ec_init_tables_base(k, rows, coef.data(), t32.data());
	for (int r = 0; r < rows; r++) dp_[r] = libfull[r].data();
	ec_encode_data_base((int) len, k, rows, t32.data(), sp_.data(), dp_.data());
	for (int r = 0; r < rows; r++) {
		PBT_CHECK(memcmp(b.dst[r].p, full[r].data(), len) == 0, key, "%s: k updates from zeroed parity differ from the full encode in block %d (k=%d rows=%d len=%zu)", name.c_str(), r, k, rows, len);
		PBT_CHECK(memcmp(libfull[r].data(), full[r].data(), len) == 0, "ec:ec_encode_data_base", "ec_encode_data_base differs from the reference product in block %d", r);
	}
	c.nontrivial = k >= 2 && rows >= 2 && !ident;
	c.label(disp ? name + "->" + cpu::resolved_name("ec_encode_data_update") : name);
	c.label(fmt("rows%%6=%d", rows % 6));
	if (ndbl) c.label("has-double-application");
	if (c.want_sample) {
		std::string o;
		for (size_t i = 0; i < seq.size() && i < 24; i++) o += (i ? "," : "") + std::to_string(seq[i]);
		c.sample = fmt("{\"fn\":%s,\"k\":%d,\"rows\":%d,\"len\":%zu,\"update_order\":[%s]}", jstr(name).c_str(), k, rows, len, o.c_str());
	}
}

static void body_mad_disp(Tape &t, Ctx &c) {
	const char *lv = cpu::LEVEL_NAMES[t.range(0, cpu::N_LEVELS - 1)];
	size_t len = 64 + kern::decode_len(t, 20000);
	int k = (int) t.range(1, 32);
	int vec_i = (int) t.range(0, k - 1);
	kern::Placement sp = kern::decode_placement(t), dp = kern::decode_placement(t);
	std::vector<uint8_t> coef;
	gen_coef(t, coef, 1, k);
	uint64_t dseed = t.bits64();
	c.fpmix(mix64((uint64_t) (uintptr_t) lv)); c.fpmix(k); c.fpmix(vec_i); c.fpmix(len); c.fpmix(dseed);
	kern::use_level(lv);
	MB b;
	setup_tbl(b, k, 1, coef, false, false);
	b.src = kern::alloc(len, sp, "src");
	kern::fill(b.src.p, len, dseed, 0);
	guard::set_readonly(b.src);
	setup_dst(b, 1, len, dp, dseed + 3, false);
	std::vector<uint8_t> old(b.dst[0].p, b.dst[0].p + len);
	std::string name = std::string("gf_vect_mad@") + lv;
	guard::Fault f = guard::call([&] { gf_vect_mad((int) len, k, vec_i, b.tbl.p, b.src.p, b.dst[0].p); });
	PBT_CHECK(!f.faulted, "ec:gf_vect_mad", "%s(len=%zu,vec=%d,vec_i=%d): %s", name.c_str(), len, k, vec_i, f.describe().c_str());
	PBT_CHECK(guard::canaries_ok(b.dst[0]), "ec:gf_vect_mad", "%s wrote outside dest", name.c_str());
	for (size_t i = 0; i < len; i++) {
		uint8_t want = old[i] ^ refgf::mul(coef[vec_i], b.src.p[i]);
		PBT_CHECK(b.dst[0].p[i] == want, "ec:gf_vect_mad", "%s: dest[%zu]=0x%02x want 0x%02x (len=%zu vec=%d vec_i=%d)", name.c_str(), i, b.dst[0].p[i], want, len, k, vec_i);
	}
	c.nontrivial = k >= 2 && vec_i > 0;
	c.label(name + "->" + cpu::resolved_name("gf_vect_mad"));
}

// gf_vect_mul: dest = c * src for len % 32 == 0 and 32-byte aligned buffers; otherwise refused without touching dest
static void body_mul(Tape &t, Ctx &c) {
	typedef int (*mfn)(int, unsigned char *, void *, void *);
	static const struct { const char *name; mfn fn; const char *level; } MV[] = {
		{"gf_vect_mul_base", (mfn) gf_vect_mul_base, "base"}, {"gf_vect_mul_sse", (mfn) gf_vect_mul_sse, "sse"}, {"gf_vect_mul_avx", (mfn) gf_vect_mul_avx, "avx"}};
	uint32_t vi = (uint32_t) t.range(0, 3 + cpu::N_LEVELS - 1);
	uint8_t cst = (uint8_t) t.range(0, 255);
	bool bad = t.chance(1, 6);
	size_t len = (size_t) (t.coin() ? t.range(0, 40) : t.spread(0, 3000)) * 32;
	if (bad) len += (size_t) t.range(1, 31);
	int place = (int) t.range(0, 1);
	uint64_t dseed = t.bits64();
	c.fpmix(vi); c.fpmix(cst); c.fpmix(len); c.fpmix(place); c.fpmix(dseed);
	std::string name;
	mfn fn;
	if (vi < 3) {
		cpu::Config cfg;
		cpu::level_config(MV[vi].level, cfg);
		if (!cpu::host_can_run(cfg)) throw Skip("host cannot execute variant");
		fn = MV[vi].fn; name = MV[vi].name;
	} else {
		const char *lv = cpu::LEVEL_NAMES[vi - 3];
		kern::use_level(lv);
		fn = (mfn) gf_vect_mul; name = std::string("gf_vect_mul@") + lv;
	}
	std::string key = "ec:" + name.substr(0, name.find('@'));
	guard::Buf tb = guard::alloc(32, guard::END, "gftbl");
	gf_vect_mul_init(cst, tb.p);
	guard::set_readonly(tb);
	guard::Buf src = guard::alloc(len, place ? guard::START : guard::END, "src", 32, 0);
	kern::fill(src.p, len, dseed, 0);
	guard::set_readonly(src);
	guard::Buf dst = guard::alloc(len, place ? guard::START : guard::END, "dest", 32, 0);
	std::vector<uint8_t> before(dst.p, dst.p + len);
	int rc = 0;
	guard::Fault f = guard::call([&] { rc = fn((int) len, tb.p, src.p, dst.p); });
	PBT_CHECK(!f.faulted, key, "%s(len=%zu,c=%u): %s", name.c_str(), len, cst, f.describe().c_str());
	PBT_CHECK(guard::canaries_ok(dst), key, "%s wrote outside dest (len=%zu)", name.c_str(), len);
	if (len % 32) {
		PBT_CHECK(rc != 0, key, "%s accepted len=%zu which is not a multiple of 32", name.c_str(), len);
		PBT_CHECK(memcmp(dst.p, before.data(), len) == 0, key, "%s refused len=%zu but modified dest", name.c_str(), len);
		c.label("refused-non-multiple");
	} else {
		PBT_CHECK(rc == 0, key, "%s(len=%zu) returned %d", name.c_str(), len, rc);
		for (size_t i = 0; i < len; i++)
			PBT_CHECK(dst.p[i] == refgf::mul(cst, src.p[i]), key, "%s: dest[%zu]=0x%02x, c*src=0x%02x (c=%u len=%zu)", name.c_str(), i, dst.p[i], refgf::mul(cst, src.p[i]), cst, len);
	}
	c.nontrivial = len >= 32 && cst > 1;
	c.label(vi < 3 ? name : name + "->" + cpu::resolved_name("gf_vect_mul"));
	if (c.want_sample) c.sample = fmt("{\"fn\":%s,\"c\":%u,\"len\":%zu,\"rc\":%d}", jstr(name).c_str(), cst, len, rc);
}

int main(int argc, char **argv) {
	const char *rule = "mad: one update on random old parity == old ^ coef*src, second application restores old; update: state machine over a generated permutation of source indices "
	                   "(plus cancelling double applications) checked after every step against a model and at the end against the reference full encode and ec_encode_data_base; "
	                   "mul: dest == c*src or refusal without side effects. Non-trivial: k>=2, rows>=2, order not the identity (mad: vec_i != 0)";
	std::vector<Sub> subs = {
		{"mad_sweep", body_mad_sweep, 4, 0, sweep_mad, rule},
		{"mad_direct", body_mad, 22, 10, nullptr, rule},
		{"update", body_update, 84, 10, nullptr, rule},
		{"mad_dispatch", body_mad_disp, 16, 2, nullptr, rule},
		{"mul", body_mul, 10, 4, nullptr, rule},
	};
	return pbt_main(argc, argv, "C13", subs);
}
