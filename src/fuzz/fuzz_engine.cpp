// Coverage-guided driver for the same property bodies the rapidcheck engine runs.
//
// The property file is compiled with -Dmain=verif_prop_main; its call of
// pbt_main() lands here and merely registers the sub-properties.  libFuzzer
// owns the process: every input is decoded as
//     byte 0            -> which enabled sub-property
//     bytes 1..         -> the tape, little-endian 32-bit cells, zero padded
// and handed to the unchanged body, so a failing input is the same replay
// file ({"sub","tape"}) the other engine produces and reads.  Library C code
// and the generators/reference decoders are built with
// -fsanitize=fuzzer-no-link,address: the search is guided by coverage of the
// library's C paths (header parsers, state machines, base kernels) and of the
// oracle (new stream shapes), and ASan adds stack/global bounds to the
// guard-page arena.
//
// Configuration by environment (libFuzzer owns argv):
//   VERIF_FUZZ_OUT     side file (same JSON as the rapidcheck engine) + .cur
//   VERIF_FUZZ_KNOWN   ';'-separated known-finding keys
//   VERIF_FUZZ_ONLY    ','-separated sub-properties
//   VERIF_FUZZ_REPLAY  replay file: run it, print REPLAY-PASS/FAIL, exit
//   VERIF_FUZZ_EXPORT  with REPLAY: write the equivalent libFuzzer input here
#include "pbt.h"
#include "guard.h"
#include <chrono>
#include <fstream>
#include <sstream>
#include <fcntl.h>
#include <sys/mman.h>
#include <unistd.h>

int verif_prop_main(int, char **);

namespace pbt {

Options opt;

std::string fmt(const char *f, ...) {
	char buf[4096];
	va_list ap;
	va_start(ap, f);
	vsnprintf(buf, sizeof buf, f, ap);
	va_end(ap);
	return buf;
}
std::string jstr(const std::string &s) {
	std::string o = "\"";
	for (unsigned char c : s) {
		if (c == '"' || c == '\\') { o += '\\'; o += c; }
		else if (c < 0x20 || c >= 0x7f) { char b[8]; snprintf(b, sizeof b, "\\u%04x", c); o += b; }
		else o += c;
	}
	return o + "\"";
}
std::string jhex(const uint8_t *p, size_t n, size_t maxn) {
	std::string o = "\"";
	for (size_t i = 0; i < n && i < maxn; i++) { char b[4]; snprintf(b, sizeof b, "%02x", p[i]); o += b; }
	if (n > maxn) o += "...";
	return o + "\"";
}

struct FStats {
	uint64_t evals = 0, nontriv = 0, skips = 0;
	std::map<std::string, uint64_t> labels, skip_why, known_hits;
	std::unordered_set<uint64_t> fps;
	std::vector<std::string> samples;
};
static std::vector<Sub> g_subs;
static std::vector<int> g_enabled;
static std::vector<FStats> g_stats;
static std::string g_pid, g_out;
static uint32_t *g_cur;
static const size_t CUR_WORDS = 4096;
static std::chrono::steady_clock::time_point g_t0;
static bool g_failed;
static int g_fail_sub;
static std::string g_fail_key, g_fail_msg;
static std::vector<uint32_t> g_fail_tape;

int pbt_main(int, char **, const char *pid, const std::vector<Sub> &subs) {
	g_subs = subs;
	g_pid = pid;
	return 0;
}

static void write_side() {
	if (g_out.empty()) return;
	double wall = std::chrono::duration<double>(std::chrono::steady_clock::now() - g_t0).count();
	std::ostringstream o;
	o << "{\"property\":" << jstr(g_pid) << ",\"worker\":" << opt.worker << ",\"seed\":" << opt.seed << ",\"wall_s\":" << wall << ",\"subs\":[";
	for (size_t i = 0; i < g_subs.size(); i++) {
		const FStats &st = g_stats[i];
		if (i) o << ",";
		o << "{\"name\":" << jstr(g_subs[i].name) << ",\"rule\":" << jstr(g_subs[i].rule ? g_subs[i].rule : "") << ",\"evaluations\":" << st.evals
		  << ",\"nontrivial_evals\":" << st.nontriv << ",\"distinct_fps\":" << st.fps.size() << ",\"skips\":" << st.skips << ",\"labels\":{";
		bool f = true;
		for (auto &kv : st.labels) { o << (f ? "" : ",") << jstr(kv.first) << ":" << kv.second; f = false; }
		o << "},\"skip_why\":{";
		f = true;
		for (auto &kv : st.skip_why) { o << (f ? "" : ",") << jstr(kv.first) << ":" << kv.second; f = false; }
		o << "},\"known_hits\":{";
		f = true;
		for (auto &kv : st.known_hits) { o << (f ? "" : ",") << jstr(kv.first) << ":" << kv.second; f = false; }
		o << "},\"samples\":[";
		for (size_t k = 0; k < st.samples.size(); k++) o << (k ? "," : "") << st.samples[k];
		o << "]}";
	}
	o << "]";
	if (g_failed) {
		o << ",\"failure\":{\"sub\":" << jstr(g_subs[g_fail_sub].name) << ",\"key\":" << jstr(g_fail_key) << ",\"msg\":" << jstr(g_fail_msg) << ",\"tape\":[";
		for (size_t k = 0; k < g_fail_tape.size(); k++) o << (k ? "," : "") << g_fail_tape[k];
		o << "]}";
	}
	o << "}\n";
	std::ofstream f(g_out);
	f << o.str();
	f.close();
	std::ofstream b(g_out + ".fp", std::ios::binary);
	for (auto &st : g_stats)
		for (uint64_t x : st.fps) b.write((const char *) &x, 8);
}

enum Outcome { PASS, SKIPPED, FAIL };

static Outcome run_one(int si, const std::vector<uint32_t> &tape, bool counting) {
	const Sub &s = g_subs[si];
	FStats &st = g_stats[si];
	if (g_cur) {
		size_t n = tape.size() < CUR_WORDS - 2 ? tape.size() : CUR_WORDS - 2;
		g_cur[0] = si;
		g_cur[1] = (uint32_t) n;
		memcpy(g_cur + 2, tape.data(), n * 4);
	}
	Tape t(tape);
	Ctx c;
	c.fp = mix64(si + 1);
	c.want_sample = counting && (st.evals < 3 || mix64(st.evals) % 997 == 0);
	try {
		s.body(t, c);
	} catch (const Skip &sk) {
		if (counting) { st.skips++; st.skip_why[sk.why]++; }
		guard::release_all();
		return SKIPPED;
	} catch (const Violation &v) {
		guard::release_all();
		if (opt.known.count(v.key)) {
			if (counting) { st.evals++; st.known_hits[v.key]++; }
			return PASS;
		}
		g_failed = true;
		g_fail_sub = si;
		g_fail_tape = tape;
		g_fail_key = v.key;
		g_fail_msg = v.msg;
		return FAIL;
	} catch (const OracleBug &b) {
		fprintf(stderr, "ORACLE-BUG sub=%s: %s\n", s.name, b.msg.c_str());
		fflush(stderr);
		_exit(3);
	}
	guard::release_all();
	if (counting) {
		st.evals++;
		for (auto &l : c.labels) st.labels[l]++;
		if (c.nontrivial) {
			st.nontriv++;
			if (st.fps.size() < 3000000) st.fps.insert(c.fp);
		}
		if (c.want_sample && !c.sample.empty()) {
			if (st.samples.size() < 6) st.samples.push_back(c.sample);
			else st.samples[st.evals % 6] = c.sample;
		}
	}
	return PASS;
}

static void split(const char *v, const char *seps, std::set<std::string> &dst) {
	if (!v) return;
	std::string cur;
	for (const char *p = v;; p++) {
		if (*p == 0 || strchr(seps, *p)) { if (!cur.empty()) dst.insert(cur); cur.clear(); if (!*p) break; }
		else cur += *p;
	}
}

static std::vector<uint32_t> parse_tape(const std::string &txt, std::string &sub) {
	std::vector<uint32_t> t;
	size_t p = txt.find("\"sub\"");
	if (p != std::string::npos) {
		p = txt.find('"', txt.find(':', p));
		size_t q = txt.find('"', p + 1);
		sub = txt.substr(p + 1, q - p - 1);
	}
	p = txt.find("\"tape\"");
	if (p == std::string::npos) return t;
	p = txt.find('[', p);
	size_t q = txt.find(']', p);
	std::string body = txt.substr(p + 1, q - p - 1);
	const char *c = body.c_str();
	while (*c) {
		while (*c && (*c < '0' || *c > '9')) c++;
		if (!*c) break;
		t.push_back((uint32_t) strtoull(c, (char **) &c, 10));
	}
	return t;
}

} // namespace pbt

using namespace pbt;

extern "C" int LLVMFuzzerInitialize(int *, char ***) {
	verif_prop_main(0, nullptr);
	g_stats.resize(g_subs.size());
	if (getenv("VERIF_FUZZ_LIST")) {
		for (auto &s : g_subs) printf("%s %d\n", s.name, s.tape_len);
		fflush(stdout);
		_exit(0);
	}
	opt.cfg = "asan";
	split(getenv("VERIF_FUZZ_KNOWN"), ";", opt.known);
	split(getenv("VERIF_FUZZ_ONLY"), ",;", opt.only);
	if (getenv("VERIF_FUZZ_WORKER")) opt.worker = atoi(getenv("VERIF_FUZZ_WORKER"));
	if (getenv("VERIF_FUZZ_SEED")) opt.seed = strtoull(getenv("VERIF_FUZZ_SEED"), 0, 10);
	for (size_t i = 0; i < g_subs.size(); i++)
		if (g_subs[i].body && (opt.only.empty() || opt.only.count(g_subs[i].name))) g_enabled.push_back((int) i);
	if (g_enabled.empty()) { fprintf(stderr, "fuzz: no sub-property enabled\n"); _exit(2); }
	guard::init();
	g_t0 = std::chrono::steady_clock::now();
	if (const char *rp = getenv("VERIF_FUZZ_REPLAY")) {
		std::ifstream f(rp);
		std::stringstream ss;
		ss << f.rdbuf();
		std::string sub;
		std::vector<uint32_t> tape = parse_tape(ss.str(), sub);
		int si = -1;
		for (size_t i = 0; i < g_subs.size(); i++) if (sub == g_subs[i].name) si = (int) i;
		if (si < 0) { fprintf(stderr, "replay: unknown sub '%s'\n", sub.c_str()); _exit(2); }
		if (const char *ex = getenv("VERIF_FUZZ_EXPORT")) {
			// corpus seed equivalent to this tape (index among ALL subs when nothing is filtered)
			std::ofstream o(ex, std::ios::binary);
			int pos = 0;
			for (size_t k = 0; k < g_enabled.size(); k++) if (g_enabled[k] == si) pos = (int) k;
			o.put((char) pos);
			for (uint32_t w : tape) o.write((const char *) &w, 4);
			_exit(0);
		}
		opt.known.clear();
		Outcome o = run_one(si, tape, false);
		if (o == FAIL) {
			printf("REPLAY-FAIL property=%s sub=%s key=%s msg=%s\n", g_pid.c_str(), sub.c_str(), g_fail_key.c_str(), g_fail_msg.c_str());
			fflush(stdout);
			_exit(1);
		}
		printf("REPLAY-PASS property=%s sub=%s%s\n", g_pid.c_str(), sub.c_str(), o == SKIPPED ? " (skipped)" : "");
		fflush(stdout);
		_exit(0);
	}
	if (const char *o = getenv("VERIF_FUZZ_OUT")) {
		g_out = o;
		std::string curp = g_out + ".cur";
		int fd = open(curp.c_str(), O_RDWR | O_CREAT | O_TRUNC, 0644);
		if (fd >= 0 && ftruncate(fd, CUR_WORDS * 4) == 0) {
			void *p = mmap(0, CUR_WORDS * 4, PROT_READ | PROT_WRITE, MAP_SHARED, fd, 0);
			if (p != MAP_FAILED) g_cur = (uint32_t *) p;
		}
		if (fd >= 0) close(fd);
		atexit(write_side);
	}
	return 0;
}

extern "C" int LLVMFuzzerTestOneInput(const uint8_t *data, size_t size) {
	if (size < 1) return 0;
	int si = g_enabled[data[0] % g_enabled.size()];
	const Sub &s = g_subs[si];
	std::vector<uint32_t> tape((size_t) s.tape_len, 0);
	size_t cells = (size - 1) / 4;
	if (cells > tape.size()) cells = tape.size();
	memcpy(tape.data(), data + 1, cells * 4);
	size_t rest = (size - 1) - cells * 4;
	if (cells < tape.size() && rest) { // trailing partial cell
		uint32_t w = 0;
		memcpy(&w, data + 1 + cells * 4, rest);
		tape[cells] = w;
	}
	if (run_one(si, tape, true) == FAIL) {
		fprintf(stderr, "FAIL property=%s sub=%s key=%s msg=%s\n", g_pid.c_str(), s.name, g_fail_key.c_str(), g_fail_msg.c_str());
		fflush(stderr);
		write_side();
		_exit(1); // the side file carries the tape; the driver confirms it by replay
	}
	return 0;
}
