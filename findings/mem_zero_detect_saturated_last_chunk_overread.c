/* isal_zero_detect (mem_zero_detect_avx2 / mem_zero_detect_avx512): the loops continue while
 *   (last-iteration flag) + (mask of non-zero bytes) == 0
 * using ADD.  When the final chunk is saturated (mask all ones) and the flag is 1 the sum wraps to 0, the loop
 * does not stop and keeps reading past the end of the region (fault at a page boundary; otherwise the answer is
 * taken from memory that does not belong to the region).
 * Build: gcc -O1 -I<repo>/include this.c <repo>/.libs/libisal.a && ./a.out      (exit 1 = defect present) */
#include <stdio.h>
#include <string.h>
#include <signal.h>
#include <setjmp.h>
#include <sys/mman.h>
#include "mem_routines.h"
int mem_zero_detect_avx2(void *, size_t);
int mem_zero_detect_avx512(void *, size_t);
static sigjmp_buf jb;
static void h(int s) { (void) s; siglongjmp(jb, 1); }
int main(void) {
	unsigned char *m = mmap(0, 3 * 4096, PROT_READ | PROT_WRITE, MAP_PRIVATE | MAP_ANONYMOUS, -1, 0);
	mprotect(m + 2 * 4096, 4096, PROT_NONE);
	signal(SIGSEGV, h);
	int bad = 0;
	struct { const char *n; int (*f)(void *, size_t); size_t len, tail; } T[] = {
		{"mem_zero_detect_avx2", mem_zero_detect_avx2, 16, 16}, {"mem_zero_detect_avx2", mem_zero_detect_avx2, 1857, 32},
		{"mem_zero_detect_avx512", mem_zero_detect_avx512, 129, 64}, {"isal_zero_detect", (int (*)(void *, size_t)) isal_zero_detect, 16, 16}};
	for (unsigned i = 0; i < sizeof T / sizeof T[0]; i++) {
		unsigned char *p = m + 2 * 4096 - T[i].len; /* region ends at the inaccessible page */
		memset(m, 0, 2 * 4096);
		memset(p + T[i].len - T[i].tail, 0xFF, T[i].tail);
		if (sigsetjmp(jb, 1) == 0) { int r = T[i].f(p, T[i].len); printf("%s(len %zu, last %zu bytes 0xFF) = %d\n", T[i].n, T[i].len, T[i].tail, r); if (!r) bad++; }
		else { printf("%s(len %zu, last %zu bytes 0xFF): SIGSEGV - read past the end of the region\n", T[i].n, T[i].len, T[i].tail); bad++; }
	}
	return bad != 0;
}
