#include "igzcheck.h"
#include "datagen.h"
using namespace pbt;
namespace pbt { Options opt; std::string fmt(const char *f, ...) { char b[2048]; va_list ap; va_start(ap, f); vsnprintf(b, sizeof b, f, ap); va_end(ap); return b; } std::string jstr(const std::string &s) { return s; } std::string jhex(const uint8_t *, size_t, size_t) { return ""; } }
int main() {
	guard::init();
	std::vector<uint8_t> data(20000);
	for (size_t i = 0; i < data.size(); i++) data[i] = (uint8_t) ("the quick brown fox jumps over the lazy dog. "[(mix64(5 + i / 7) + i) % 45]);
	for (int level = 0; level <= 3; level++) for (uint32_t ic : {1u, 3u, 16u, 64u, 300u, 5000u}) for (int fm = 0; fm < 4; fm++) for (uint32_t oc : {32u, 100000u}) {
		std::vector<uint8_t> outs[2];
		for (int k = 0; k < 2; k++) {
			igz::DefOpts o; o.level = level; o.lbuf_size = igz::lvl_buf_size(3, 3);
			igz::Deflater d(o);
			igzc::StreamPlan p; p.in.mode = ic == 5000 ? 0 : 2; p.in.param = ic; p.in.seed = 9; p.out.mode = 1; p.out.param = oc; p.flush_mode = fm; p.flush_seed = 4;
			std::string ks; igzc::run_stream(d, data, p, ks);
			outs[k] = d.out;
			guard::alloc(70000 + 4096 * 3, guard::END, "pad"); // shift the second context
		}
		guard::release_all();
		if (outs[0] != outs[1]) printf("level %d in<=%u flush-mode %d out %u: streams differ (%zu vs %zu)\n", level, ic, fm, oc, outs[0].size(), outs[1].size());
	}
	printf("done\n");
}
