#include <stdio.h>
#include <stdlib.h>
#include <string.h>
#include <zlib.h>
#include <sys/mman.h>
#include "igzip_lib.h"
/* A and B share 8-byte words W_i at the same offsets but differ in the filler between them.
   The memory directly in front of B (NOT part of the stream) looks like B.  */
int main(int argc,char**argv){
  int level=argc>1?atoi(argv[1]):1;
  unsigned lbsz[4]={0,ISAL_DEF_LVL1_DEFAULT,ISAL_DEF_LVL2_DEFAULT,ISAL_DEF_LVL3_DEFAULT};
  struct isal_zstream *s=malloc(sizeof *s); unsigned char *lb=malloc(lbsz[level]+16);
  isal_deflate_init(s); s->level=level; s->level_buf=lb; s->level_buf_size=lbsz[level];
  enum {N=384};
  unsigned char A[N], *arena=mmap(0,8192,PROT_READ|PROT_WRITE,MAP_PRIVATE|MAP_ANONYMOUS,-1,0), *B=arena+4096; int guard=argc>2; 
  srand(7);
  for(int i=0;i<N;i++){ int w=(i/8)%2==0; A[i]= w? (unsigned char)('a'+(i/16+ (i%8)*3)%26) : (unsigned char)('A'+(rand()>>7)%4); }
  for(int i=0;i<N;i++){ int w=(i/8)%2==0; B[i]= w? A[i] : (unsigned char)('0'+(rand()>>9)%4); }
  memcpy(B-N,B,N); if(guard) mprotect(arena,4096,PROT_NONE);
  unsigned char out[8192]; size_t on=0;
  s->next_in=A; s->avail_in=N; s->flush=FULL_FLUSH; s->end_of_stream=0; s->next_out=out; s->avail_out=31;
  int rc=isal_deflate(s); on=31-s->avail_out; printf("call1 rc=%d avail_in=%u produced=%zu state=%d has_hist=%d\n",rc,s->avail_in,on,s->internal_state.state,s->internal_state.has_hist);
  if(s->avail_in){printf("not all consumed\n");return 2;}
  s->next_in=B; s->avail_in=N; s->end_of_stream=0; s->flush=FULL_FLUSH;
  for(int c=0;c<200 && s->avail_in;c++){ s->next_out=out+on; s->avail_out=16; rc=isal_deflate(s); on+=16-s->avail_out; printf("  call rc=%d avail_in=%u state=%d has_hist=%d\n",rc,s->avail_in,s->internal_state.state,s->internal_state.has_hist);}
  s->end_of_stream=1;
  while(s->internal_state.state!=ZSTATE_END){ s->next_out=out+on; s->avail_out=sizeof(out)-on; rc=isal_deflate(s); on=sizeof(out)-s->avail_out; if(rc){printf("rc=%d\n",rc);break;} }
  unsigned char dec[4096]; z_stream z; memset(&z,0,sizeof z); inflateInit2(&z,-15); z.next_in=out; z.avail_in=on; z.next_out=dec; z.avail_out=sizeof dec; int zr=inflate(&z,Z_FINISH);
  int okA=z.total_out>=N && !memcmp(dec,A,N); int okB=z.total_out==2*N && !memcmp(dec+N,B,N);
  printf("zlib rc=%d total_out=%lu A ok=%d B ok=%d\n",zr,z.total_out,okA,okB);
  return !(okA&&okB);
}
