/* isal_create_hufftables_subset() with a histogram whose end-of-block count is 0 can build a literal/length
 * code without a code for symbol 256; level-0 compression with that table produces a stream no decoder accepts.
 * Searches small sparse histograms (deterministic LCG) and round-trips data drawn from the histogram's support. */
#include <stdio.h>
#include <string.h>
#include <zlib.h>
#include "igzip_lib.h"
static unsigned long long st=12345; static unsigned rnd(void){ st=st*6364136223846793005ULL+1442695040888963407ULL; return (unsigned)(st>>33); }
int main(void){
  static struct isal_huff_histogram h; static struct isal_hufftables ht;
  int bad=0, noeob=0;
  for(int trial=0;trial<2000;trial++){
    memset(&h,0,sizeof h);
    int n=2+rnd()%10; unsigned char sup[16]; int ns=0;
    for(int i=0;i<n;i++){ int sym=rnd()%256; h.lit_len_histogram[sym]=1+rnd()%100000; sup[ns++]=(unsigned char)sym; }
    for(int i=0;i<3;i++) h.lit_len_histogram[257+rnd()%29]=1+rnd()%1000;
    for(int i=0;i<3;i++) h.dist_histogram[rnd()%30]=1+rnd()%1000;            /* EOB count stays 0 */
    if(isal_create_hufftables_subset(&ht,&h)) continue;
    if(ht.lit_table_sizes[256]==0) noeob++;
    unsigned char in[200], out[1024], dec[400]; for(int i=0;i<200;i++) in[i]=sup[rnd()%ns];
    struct isal_zstream s; isal_deflate_stateless_init(&s); s.hufftables=&ht;
    s.next_in=in; s.avail_in=200; s.next_out=out; s.avail_out=sizeof out; s.end_of_stream=1;
    if(isal_deflate_stateless(&s)) continue;
    z_stream z; memset(&z,0,sizeof z); inflateInit2(&z,-15); z.next_in=out; z.avail_in=s.total_out; z.next_out=dec; z.avail_out=sizeof dec;
    int zr=inflate(&z,Z_FINISH); int ok = zr==Z_STREAM_END && z.total_out==200 && !memcmp(dec,in,200); inflateEnd(&z);
    if(!ok){ if(!bad) printf("trial %d: table has EOB length %u; zlib inflate=%d (%s), %lu bytes\n",trial,ht.lit_table_sizes[256],zr,z.msg?z.msg:"",z.total_out); bad++; }
  }
  printf("tables without an end-of-block code: %d, failed round trips: %d of 2000\n",noeob,bad);
  return bad!=0;
}
