#include <stdio.h>
#include <stdlib.h>
#include <string.h>
#include <zlib.h>
#include "igzip_lib.h"
/* search: low-entropy A and B; the memory in front of B is low-entropy garbage G (not A). */
int main(int argc,char**argv){
  int level=argc>1?atoi(argv[1]):1, bad=0;
  unsigned lbsz[4]={0,ISAL_DEF_LVL1_DEFAULT,ISAL_DEF_LVL2_DEFAULT,ISAL_DEF_LVL3_DEFAULT};
  struct isal_zstream *s=malloc(sizeof *s); unsigned char *lb=malloc(lbsz[level]+16);
  enum {N=384};
  unsigned char A[N], *arena=malloc(8192), *B=arena+4096, out[8192], dec[4096];
  for(int trial=0;trial<3000 && !bad;trial++){
    srand(trial);
    for(int i=0;i<N;i++){ A[i]='a'+(rand()>>9)%2; B[i]='a'+(rand()>>9)%2; B[i-N]='a'+(rand()>>9)%2; }
    isal_deflate_init(s); s->level=level; s->level_buf=lb; s->level_buf_size=lbsz[level];
    size_t on=0;
    s->next_in=A; s->avail_in=N; s->flush=FULL_FLUSH; s->end_of_stream=0; s->next_out=out; s->avail_out=20;
    isal_deflate(s); on=20-s->avail_out;
    if(s->avail_in) continue;
    s->next_in=B; s->avail_in=N; s->end_of_stream=0; s->flush=FULL_FLUSH;
    for(int c=0;c<400 && s->avail_in;c++){ s->next_out=out+on; s->avail_out=16; isal_deflate(s); on+=16-s->avail_out; }
    s->end_of_stream=1;
    while(s->internal_state.state!=ZSTATE_END){ s->next_out=out+on; s->avail_out=sizeof(out)-on; if(isal_deflate(s))break; on=sizeof(out)-s->avail_out; }
    z_stream z; memset(&z,0,sizeof z); inflateInit2(&z,-15); z.next_in=out; z.avail_in=on; z.next_out=dec; z.avail_out=sizeof dec; int zr=inflate(&z,Z_FINISH); inflateEnd(&z);
    if(zr!=Z_STREAM_END || z.total_out!=2*N || memcmp(dec,A,N) || memcmp(dec+N,B,N)){ printf("trial %d: CORRUPT zr=%d total_out=%lu\n",trial,zr,z.total_out); bad=1; }
  }
  printf("level %d: %s\n",level,bad?"stream corruption demonstrated":"no corruption in 3000 trials");
  return bad;
}
