/* isal_deflate: a sync/full flush left pending by a full output buffer, followed by a call that brings new input
 * (again with a flush request) and plenty of output space: the call returns with avail_in == 0, avail_out > 0 and
 * state ZSTATE_NEW_HDR -- documented as "all input has been flushed" -- although the new input is only buffered. */
#include <stdio.h>
#include <stdlib.h>
#include <string.h>
#include <zlib.h>
#include "igzip_lib.h"

static size_t inflate_prefix(const unsigned char *in, size_t n, unsigned char *out, size_t cap) {
	z_stream z; memset(&z, 0, sizeof z);
	inflateInit2(&z, -15);
	z.next_in = (unsigned char *) in; z.avail_in = n; z.next_out = out; z.avail_out = cap;
	inflate(&z, Z_SYNC_FLUSH);
	size_t got = cap - z.avail_out;
	inflateEnd(&z);
	return got;
}

int main(void) {
	static unsigned char A[300], B[200], out[8192], dec[8192], lb[ISAL_DEF_LVL3_DEFAULT];
	int bad = 0;
	for (int i = 0; i < 300; i++) A[i] = "the quick brown fox "[i % 20];
	for (int i = 0; i < 200; i++) B[i] = "jumps over the lazy dog "[i % 24];
	for (int level = 0; level <= 3; level++)
	for (int flush = SYNC_FLUSH; flush <= FULL_FLUSH; flush++) {
		struct isal_zstream s;
		/* size of A + flush with a large buffer */
		isal_deflate_init(&s); s.level = level; s.level_buf = lb; s.level_buf_size = sizeof lb; s.flush = flush;
		s.next_in = A; s.avail_in = sizeof A; s.next_out = out; s.avail_out = sizeof out;
		isal_deflate(&s);
		size_t full = s.total_out;
		for (size_t first = full > 12 ? full - 12 : 1; first < full; first++) {
			isal_deflate_init(&s); s.level = level; s.level_buf = lb; s.level_buf_size = sizeof lb; s.flush = flush;
			s.next_in = A; s.avail_in = sizeof A; s.next_out = out; s.avail_out = first;
			isal_deflate(&s);
			if (s.avail_in != 0 || s.avail_out != 0) continue; /* only the case: input taken, output buffer full */
			int st1 = s.internal_state.state;
			s.next_in = B; s.avail_in = sizeof B; s.next_out = out + first; s.avail_out = sizeof out - first; s.flush = flush;
			isal_deflate(&s);
			if (s.avail_in == 0 && s.avail_out > 0 && s.internal_state.state == ZSTATE_NEW_HDR) {
				size_t got = inflate_prefix(out, s.total_out, dec, sizeof dec);
				if (got != sizeof A + sizeof B) {
					printf("level %d flush %d first buffer %zu of %zu (state after call 1: %d): call 2 signals a completed flush, "
					       "output decodes to %zu bytes, %zu were fed\n", level, flush, first, full, st1, got, sizeof A + sizeof B);
					bad++;
				}
			}
		}
	}
	printf("%s (%d)\n", bad ? "VIOLATION" : "ok", bad);
	return bad != 0;
}
